import CattrsModel.Preconf.Lemmas2
/-!
# C16, third layer: mappings and `Counter` — the generic mapping lemma and the treatment of keys
(`encKey` / `normKey`) for the three ways a key reaches the encoder: the declared-type handler (`unP`),
`to_builtins` (msgspec pass-through of the whole mapping) and unchanged (`Counter`).
-/
namespace CattrsModel.Preconf
open CattrsModel

variable {w : EW} {env : Env} {cf : Conf}

/-- the encoder's test on a mapping key -/
def encKeyF (w : EW) (fmt : Fmt) (k : Obj) : Bool := if fmt == .yaml then yamlKey k else encKey w fmt k

theorem encKV_eq_all (fmt : Fmt) (kvs : List (Obj × Obj)) :
    encKV w fmt kvs = kvs.all (fun p => encKeyF w fmt p.1 && enc w fmt p.2) := by
  induction kvs with
  | nil => simp [encKV]
  | cons p rest ih => obtain ⟨k, v⟩ := p; simp [encKV, encKeyF, ih, Bool.and_assoc]

theorem normKV_eq_map (fmt : Fmt) (kvs : List (Obj × Obj)) :
    normKV w env fmt kvs = kvs.map (fun p => (normKey w env fmt p.1, norm w env fmt p.2)) := by
  induction kvs with
  | nil => simp [normKV]
  | cons p rest ih => obtain ⟨k, v⟩ := p; simp [normKV, ih]

theorem toBKV_eq_map (kvs : List (Obj × Obj)) :
    toBKV w env kvs = kvs.map (fun p => (toB w env p.1, toB w env p.2)) := by
  induction kvs with
  | nil => simp [toBKV]
  | cons p rest ih => obtain ⟨k, v⟩ := p; simp [toBKV, ih]

/-- the key `a` of type `kt`, sent to the encoder as `u a`, is accepted and parsed back -/
def KeyGood (w : EW) (env : Env) (cf : Conf) (kt : PTy) (u : Obj → Obj) (a : Obj) : Prop :=
  encKeyF w cf.fmt (u a) = true ∧ stP w env cf kt (normKey w env cf.fmt (u a)) = some a

/-- distinct keys stay distinct, both as sent and as decoded -/
def KeyInj (w : EW) (env : Env) (cf : Conf) (u : Obj → Obj) (a b : Obj) : Prop :=
  (Obj.pyEq (u a) (u b) = true → Obj.pyEq a b = true)
  ∧ (Obj.pyEq (normKey w env cf.fmt (u a)) (normKey w env cf.fmt (u b)) = true → Obj.pyEq a b = true)

theorem keysOf_map_pair (f g : Obj → Obj) (kvs : List (Obj × Obj)) :
    keysOf (kvs.map (fun p => (f p.1, g p.2))) = (keysOf kvs).map f := by
  simp [keysOf, List.map_map, Function.comp_def]

theorem mem_keysOf {kvs : List (Obj × Obj)} {a : Obj} (h : a ∈ keysOf kvs) : ∃ p ∈ kvs, p.1 = a := by
  simpa [keysOf] using h

/-- **generic mapping lemma**: a duplicate-free dict whose keys go out as `uk k` and whose values go out as
`uv v` round-trips through any mapping type `k[kt, vt]` -/
theorem good_map (k : PMK) (kt vt : PTy) (kvs : List (Obj × Obj)) (uk uv : Obj → Obj)
    (hnd : nodupPy (keysOf kvs) = true)
    (hk : ∀ p ∈ kvs, KeyGood w env cf kt uk p.1)
    (hv : ∀ p ∈ kvs, Good w env cf vt uv p.2)
    (hinj : ∀ p ∈ kvs, ∀ q ∈ kvs, KeyInj w env cf uk p.1 q.1) :
    enc w cf.fmt (.dict (mkDict (kvs.map (fun p => (uk p.1, uv p.2))))) = true
      ∧ stP w env cf (.map k kt vt) (norm w env cf.fmt (.dict (mkDict (kvs.map (fun p => (uk p.1, uv p.2))))))
          = some (.dict kvs) := by
  have hnd1 : nodupPy (keysOf (kvs.map (fun p => (uk p.1, uv p.2)))) = true := by
    rw [keysOf_map_pair]
    apply nodupPy_map _ _ _ hnd
    intro a ha b hb h
    obtain ⟨p, hp, rfl⟩ := mem_keysOf ha
    obtain ⟨q, hq, rfl⟩ := mem_keysOf hb
    exact (hinj p hp q hq).1 h
  rw [mkDict_of_nodup _ hnd1]
  refine ⟨?_, ?_⟩
  · simp only [enc, encKV_eq_all, List.all_eq_true, List.mem_map, Bool.and_eq_true]
    rintro _ ⟨p, hp, rfl⟩
    exact ⟨(hk p hp).1, (hv p hp).1⟩
  · simp only [norm, normKV_eq_map, List.map_map, Function.comp_def]
    have hnd2 : nodupPy (keysOf (kvs.map (fun p => (normKey w env cf.fmt (uk p.1), norm w env cf.fmt (uv p.2))))) = true := by
      rw [keysOf_map_pair (fun a => normKey w env cf.fmt (uk a)) (fun b => norm w env cf.fmt (uv b))]
      apply nodupPy_map _ _ _ hnd
      intro a ha b hb h
      obtain ⟨p, hp, rfl⟩ := mem_keysOf ha
      obtain ⟨q, hq, rfl⟩ := mem_keysOf hb
      exact (hinj p hp q hq).2 h
    rw [mkDict_of_nodup _ hnd2]
    simp only [stP]
    rw [mapOpt_map]
    · simp [mkDict_of_nodup _ hnd]
    · intro p hp
      simp [(hk p hp).2, (hv p hp).2]

/-! ### facts about enum values -/

theorem value_str (hw : w.WF = true) {e m : Nat} (hm : m < (w.members e).length)
    (hall : (w.members e).all isStrObj = true) : ∃ s, w.value e m = .str s := by
  obtain ⟨hget, _, _, _, _⟩ := value_spec hw hm
  have := List.all_eq_true.mp hall _ (List.mem_of_getElem? hget)
  cases hv : w.value e m <;> simp [hv, isStrObj] at this
  exact ⟨_, rfl⟩

theorem value_int (hw : w.WF = true) {e m : Nat} (hm : m < (w.members e).length)
    (hall : (w.members e).all isIntObj = true) : ∃ i, w.value e m = .int i := by
  obtain ⟨hget, _, _, _, _⟩ := value_spec hw hm
  have := List.all_eq_true.mp hall _ (List.mem_of_getElem? hget)
  cases hv : w.value e m <;> simp [hv, isIntObj] at this
  exact ⟨_, rfl⟩

/-! ### keys through the declared-type handler -/

/-- the decoded key is parsed back by the key type's structure hook; on json / msgspec it is a string -/
theorem key_st (hw : w.WF = true) (he : env.OK) {kt : PTy} (hk : keyTy w cf.fmt kt = true) {a : Obj}
    (ha : confP w kt a = true) :
    stP w env cf kt (normKey w env cf.fmt (unP w env cf kt a)) = some a
      ∧ (cf.fmt = .yaml ∨ ∃ s, normKey w env cf.fmt (unP w env cf kt a) = .str s) := by
  obtain ⟨fmt, uh⟩ := cf
  cases kt with
  | int => cases a <;> simp [confP] at ha; cases fmt <;> simp [unP, normKey, stP, toIntE, he.int]
  | float =>
    cases a <;> simp [confP] at ha
    cases uh <;> cases fmt <;> simp [unP, normKey, stP, toFltE, he.flt]
  | str => cases a <;> simp [confP] at ha; cases fmt <;> simp [unP, normKey, stP, pyStr]
  | bytes =>
    cases a <;> simp [confP] at ha
    rename_i h
    cases fmt
    · by_cases hh : h = "" <;> simp [unP, normKey, stP, hh, he.b85e, he.b85]
    · simp [unP, normKey, stP, Obj.toBytes?]
    · simp [unP, normKey, stP, he.b64]
  | datetime | date => cases a <;> simp [confP] at ha <;> cases fmt <;> simp [unP, normKey, stP, he.iso, ha]
  | bool =>
    cases a <;> simp [confP] at ha
    simp only [keyTy, beq_iff_eq] at hk; subst hk
    simp [unP, normKey, stP, Obj.truthy]
  | enum e =>
    obtain ⟨m, rfl, hm⟩ := conf_enum_invP ha
    have hst : ∀ f, stP w env ⟨f, uh⟩ (.enum e) (w.value e m) = some (.enumM e m) := fun f => st_enum_value hw hm
    cases fmt
    · simp only [keyTy, Bool.or_eq_true, beq_iff_eq, reduceCtorEq, false_or] at hk
      obtain ⟨s, hv⟩ := value_str hw hm hk
      by_cases hp : w.kind e = .plain
      · have := hst .json
        simp [unP, hp, normKey, hv] at this ⊢; exact this
      · have := hst .json
        simp [unP, hp, normKey, hv] at this ⊢; exact this
    · have := hst .yaml
      simp [unP, normKey] at this ⊢; exact this
    · simp only [keyTy, Bool.or_eq_true, beq_iff_eq, reduceCtorEq, false_or] at hk
      obtain ⟨s, hv⟩ := value_str hw hm hk
      have := hst .msgspec
      simp [unP, normKey, hv] at this ⊢; exact this
  | lit vs =>
    simp only [confP, Bool.and_eq_true, List.contains_iff_mem] at ha
    have hm : Obj.memPy a vs = true := memPy_of_mem (by simpa using ha.2)
    have hmem : a ∈ vs := by simpa using ha.2
    cases fmt
    · simp only [keyTy, Bool.or_eq_true, beq_iff_eq, reduceCtorEq, false_or] at hk
      have := List.all_eq_true.mp hk _ hmem
      cases a <;> simp [isStrObj] at this
      simp [unP, normKey, stP, hm]
    · simp [unP, normKey, stP, hm]
    · simp only [keyTy, Bool.or_eq_true, beq_iff_eq, reduceCtorEq, false_or] at hk
      have := List.all_eq_true.mp hk _ hmem
      cases a <;> simp [isStrObj] at this
      simp [unP, normKey, stP, hm]
  | punion _ | coll _ _ | tupleHet _ | map _ _ _ | opt _ | cls _ _ _ | td _ => simp [keyTy] at hk

theorem keyTy_elemTy {fmt : Fmt} {kt : PTy} (h : keyTy w fmt kt = true) : elemTy kt = true := by
  cases kt <;> simp [keyTy] at h <;> rfl

/-- distinct keys have distinct decoded forms, whichever way the key was sent, as long as the decoded form is
the one the declared-type handler would have produced -/
theorem key_inj_of (hw : w.WF = true) (he : env.OK) {kt : PTy} (hk : keyTy w cf.fmt kt = true) {u : Obj → Obj}
    {a b : Obj} (ha : confP w kt a = true) (hb : confP w kt b = true)
    (hua : normKey w env cf.fmt (u a) = normKey w env cf.fmt (unP w env cf kt a))
    (hub : normKey w env cf.fmt (u b) = normKey w env cf.fmt (unP w env cf kt b))
    (h : Obj.pyEq (normKey w env cf.fmt (u a)) (normKey w env cf.fmt (u b)) = true) : Obj.pyEq a b = true := by
  rw [hua, hub] at h
  obtain ⟨sa, ya⟩ := key_st (env := env) hw he hk ha
  obtain ⟨sb, yb⟩ := key_st (env := env) hw he hk hb
  rcases ya with hy | ⟨s1, h1⟩
  · have e : ∀ x, normKey w env cf.fmt x = x := by intro x; simp [normKey, hy]
    rw [e, e] at h
    exact unP_inj hw he (keyTy_elemTy hk) ha hb h
  · rcases yb with hy | ⟨s2, h2⟩
    · have e : ∀ x, normKey w env cf.fmt x = x := by intro x; simp [normKey, hy]
      rw [e, e] at h
      exact unP_inj hw he (keyTy_elemTy hk) ha hb h
    · rw [h1, h2, pyEq_str_str] at h
      subst h
      rw [h1] at sa; rw [h2] at sb
      rw [sa] at sb; cases sb; exact Obj.pyEq_refl _

/-- the encoder accepts the key produced by the declared-type handler -/
theorem key_enc (hw : w.WF = true) {kt : PTy} (hk : keyTy w cf.fmt kt = true)
    (hp : cf.fmt = .msgspec → plainStrEnum w kt = false) {a : Obj} (ha : confP w kt a = true) :
    encKeyF w cf.fmt (unP w env cf kt a) = true := by
  obtain ⟨fmt, uh⟩ := cf
  cases kt with
  | int | str => cases a <;> simp [confP] at ha; cases fmt <;> simp [unP, encKeyF, encKey, yamlKey]
  | float => cases a <;> simp [confP] at ha; cases uh <;> cases fmt <;> simp [unP, encKeyF, encKey, yamlKey]
  | bytes | datetime | date => cases a <;> simp [confP] at ha <;> cases fmt <;> simp [unP, encKeyF, encKey, yamlKey]
  | bool =>
    cases a <;> simp [confP] at ha
    simp only [keyTy, beq_iff_eq] at hk; subst hk
    simp [unP, encKeyF, yamlKey]
  | enum e =>
    obtain ⟨m, rfl, hm⟩ := conf_enum_invP ha
    obtain ⟨_, _, hsi, _, _⟩ := value_spec hw hm
    have hleaf : yamlKey (w.value e m) = true ∧ ∀ f, encKey w f (w.value e m) = true := by
      cases hv : w.value e m <;> simp [hv, isStrObj, isIntObj] at hsi <;> simp [yamlKey, encKey]
    cases fmt
    · by_cases hpl : w.kind e = .plain
      · simp [unP, hpl, encKeyF, hleaf.2]
      · simp [unP, hpl, encKeyF, encKey]
    · simp [unP, encKeyF, hleaf.1]
    · have hp' := hp rfl
      simp only [plainStrEnum, Bool.and_eq_false_iff, beq_eq_false_iff_ne, ne_eq, Bool.not_eq_false'] at hp'
      simp only [unP, encKeyF, encKey]
      rcases hp' with h | h
      · simp [h]
      · obtain ⟨i, hv⟩ := value_int hw hm h
        simp [hv, isIntObj]
  | lit vs =>
    simp only [confP, Bool.and_eq_true] at ha
    cases a <;> simp [litLeaf] at ha <;> cases fmt <;> simp [unP, encKeyF, encKey, yamlKey] <;>
      simp [keyTy] at hk
    all_goals
      have := hk _ (by simpa using ha)
      simp [isStrObj] at this
  | punion _ | coll _ _ | tupleHet _ | map _ _ _ | opt _ | cls _ _ _ | td _ => simp [keyTy] at hk

/-- keys through the declared-type handler (generated mapping hook) -/
theorem key_unP (hw : w.WF = true) (he : env.OK) {kt : PTy} (hk : keyTy w cf.fmt kt = true)
    (hp : cf.fmt = .msgspec → plainStrEnum w kt = false) {a : Obj} (ha : confP w kt a = true) :
    KeyGood w env cf kt (unP w env cf kt) a ∧
      ∀ b, confP w kt b = true → KeyInj w env cf (unP w env cf kt) a b :=
  ⟨⟨key_enc hw hk hp ha, (key_st hw he hk ha).1⟩,
   fun _ hb => ⟨unP_inj hw he (keyTy_elemTy hk) ha hb, key_inj_of hw he hk ha hb rfl rfl⟩⟩

end CattrsModel.Preconf
