import CattrsModel.Preconf.Lemmas4
/-!
# C16, fifth layer: msgspec values handed wholesale to `to_builtins` (handler class `ident` / `toB`):
`structure(decode(encode(to_builtins(x))), T) = x` by recursion on `T`
-/
namespace CattrsModel.Preconf
open CattrsModel

variable {w : EW} {env : Env} {cf : Conf}

/-! ### class payloads with an arbitrary per-field wire function -/

/-- the decoded payload of a class instance: one entry per field, keyed by the field name -/
def wireG (g : PTy → Obj → Obj) : List (String × PTy) → List (String × Obj) → List (Obj × Obj)
  | (n, t) :: fs, (_, x) :: rest => (.str n, g t x) :: wireG g fs rest
  | _, _ => []

theorem keys_wireG (g : PTy → Obj → Obj) : ∀ (fs : List (String × PTy)) (vs : List (String × Obj)),
    confF w fs vs = true → keysOf (wireG g fs vs) = namesOf fs
  | [], [], _ => by simp [wireG, keysOf, namesOf]
  | [], _ :: _, h => by simp [confF] at h
  | _ :: _, [], h => by simp [confF] at h
  | (n, t) :: fs, (n', x) :: rest, h => by
      simp only [confF, Bool.and_eq_true] at h
      have := keys_wireG g fs rest h.2
      simp only [keysOf, namesOf] at this
      simp [wireG, keysOf, namesOf, this]

theorem stF_wireG (g : PTy → Obj → Obj) (pre : List (Obj × Obj)) :
    ∀ (fs : List (String × PTy)) (vs : List (String × Obj)),
    confF w fs vs = true → nodupPy (namesOf fs) = true →
    (∀ p ∈ fs, Obj.memPy (.str p.1) (keysOf pre) = false) →
    (∀ (n : String) (t : PTy) (x : Obj), (n, t) ∈ fs → confP w t x = true → stP w env cf t (g t x) = some x) →
    stF w env cf fs (pre ++ wireG g fs vs) = some vs
  | [], [], _, _, _, _ => by simp [stF]
  | [], _ :: _, h, _, _, _ => by simp [confF] at h
  | _ :: _, [], h, _, _, _ => by simp [confF] at h
  | (n, t) :: fs, (n', x) :: rest, hc, hnd, hpre, ih => by
      simp only [confF, Bool.and_eq_true, beq_iff_eq] at hc
      obtain ⟨⟨hn, hcx⟩, hcr⟩ := hc
      subst hn
      simp only [namesOf, List.map_cons, nodupPy, Bool.and_eq_true, Bool.not_eq_true'] at hnd
      have hlook : dlookup (pre ++ wireG g ((n, t) :: fs) ((n, x) :: rest)) (.str n) = some (g t x) := by
        have hp := hpre (n, t) (by simp)
        clear ih hpre
        induction pre with
        | nil => simp [wireG, dlookup_str_cons]
        | cons q pre ihp =>
          obtain ⟨k, v⟩ := q
          simp only [keysOf, List.map_cons, Obj.memPy, Bool.or_eq_false_iff] at hp
          simp only [List.cons_append, dlookup, hp.1, Bool.false_eq_true, if_false]
          exact ihp (by simpa [keysOf] using hp.2)
      have hrec := stF_wireG g (pre ++ [(.str n, g t x)]) fs rest hcr hnd.2
        (by
          intro p hp
          have h1 := hpre p (by simp [hp])
          simp only [keysOf, List.map_append, List.map_cons, List.map_nil] at h1 ⊢
          rw [memPy_append]
          simp only [h1, Obj.memPy, Bool.or_false, Bool.false_or]
          by_cases hpn : n = p.1
          · exfalso
            have : Obj.memPy (.str n) (namesOf fs) = true := by
              apply memPy_of_mem; simp only [namesOf, List.mem_map]; exact ⟨p, hp, by rw [hpn]⟩
            simp only [namesOf] at this
            rw [this] at hnd; cases hnd.1
          · simp [Obj.pyEq, Obj.num2?, hpn])
        (fun n' t' x' hm hc' => ih n' t' x' (by simp [hm]) hc')
      simp only [stF, hlook, ih n t x (by simp) hcx]
      have : pre ++ wireG g ((n, t) :: fs) ((n, x) :: rest)
          = (pre ++ [(.str n, g t x)]) ++ wireG g fs rest := by
        simp [wireG]
      rw [this, hrec]

theorem normKV_toBF : ∀ (fs : List (String × PTy)) (vs : List (String × Obj)), confF w fs vs = true →
    normKV w env cf.fmt (toBF w env vs) = wireG (fun _ x => norm w env cf.fmt (toB w env x)) fs vs
  | [], [], _ => by simp [toBF, normKV, wireG]
  | [], _ :: _, h => by simp [confF] at h
  | _ :: _, [], h => by simp [confF] at h
  | (n, t) :: fs, (n', x) :: rest, h => by
      simp only [confF, Bool.and_eq_true, beq_iff_eq] at h
      obtain ⟨⟨hn, _⟩, hr⟩ := h
      subst hn
      simp [toBF, normKV, wireG, normKey_str, normKV_toBF fs rest hr]

theorem keys_toBF : ∀ (fs : List (String × PTy)) (vs : List (String × Obj)), confF w fs vs = true →
    keysOf (toBF w env vs) = namesOf fs
  | [], [], _ => by simp [toBF, keysOf, namesOf]
  | [], _ :: _, h => by simp [confF] at h
  | _ :: _, [], h => by simp [confF] at h
  | (n, t) :: fs, (n', x) :: rest, h => by
      simp only [confF, Bool.and_eq_true, beq_iff_eq] at h
      obtain ⟨⟨hn, _⟩, hr⟩ := h
      subst hn
      have := keys_toBF fs rest hr
      simp only [keysOf, namesOf] at this
      simp [toBF, keysOf, namesOf, this]

theorem encKV_toBF : ∀ (fs : List (String × PTy)) (vs : List (String × Obj)), confF w fs vs = true →
    (∀ (n : String) (t : PTy) (x : Obj), (n, t) ∈ fs → confP w t x = true → enc w cf.fmt (toB w env x) = true) →
    encKV w cf.fmt (toBF w env vs) = true
  | [], [], _, _ => by simp [toBF, encKV]
  | [], _ :: _, h, _ => by simp [confF] at h
  | _ :: _, [], h, _ => by simp [confF] at h
  | (n, t) :: fs, (n', x) :: rest, hc, ih => by
      simp only [confF, Bool.and_eq_true] at hc
      have h1 := ih n t x (by simp) hc.1.2
      have h2 := encKV_toBF fs rest hc.2 (fun n' t' x' hm hc' => ih n' t' x' (by simp [hm]) hc')
      simp [toBF, encKV, h1, h2]
      split <;> simp [yamlKey, encKey]

/-- a class instance handed to `to_builtins` (msgspec: no private attrs attribute, no field with a custom hook) -/
theorem good_cls_toB {c : Nat} {dc : Bool} {fs : List (String × PTy)} {vs : List (String × Obj)}
    (hnd : nodupPy (namesOf fs) = true) (hcf : confF w fs vs = true)
    (ih : ∀ (n : String) (t : PTy) (x : Obj), (n, t) ∈ fs → confP w t x = true → Good w env cf t (toB w env) x) :
    Good w env cf (.cls c dc fs) (toB w env) (.inst c vs) := by
  have hk1 : nodupPy (keysOf (toBF w env vs)) = true := by rw [keys_toBF fs vs hcf]; exact hnd
  have hk2 : nodupPy (keysOf (wireG (fun _ x => norm w env cf.fmt (toB w env x)) fs vs)) = true := by
    rw [keys_wireG _ fs vs hcf]; exact hnd
  unfold Good
  simp only [toB, mkDict_of_nodup _ hk1]
  refine ⟨?_, ?_⟩
  · simp only [enc]
    exact encKV_toBF fs vs hcf (fun n t x hm hc' => (ih n t x hm hc').1)
  · simp only [norm, normKV_toBF fs vs hcf, mkDict_of_nodup _ hk2, stP]
    have := stF_wireG (env := env) (cf := cf) (fun _ x => norm w env cf.fmt (toB w env x)) [] fs vs hcf hnd
      (by intro p _; simp [keysOf, Obj.memPy])
      (fun n t x hm hc' => (ih n t x hm hc').2)
    simp only [List.nil_append] at this
    simp [this]

/-! ### the recursion -/

theorem customF_mem {fs : List (String × PTy)} (h : customF cf fs = false) {n : String} {t : PTy}
    (hm : (n, t) ∈ fs) : hk cf t ≠ .custom := by
  induction fs with
  | nil => simp at hm
  | cons p rest ih =>
    obtain ⟨n0, t0⟩ := p
    simp only [customF, Bool.or_eq_false_iff, beq_eq_false_iff_ne, ne_eq] at h
    simp only [List.mem_cons, Prod.mk.injEq] at hm
    rcases hm with ⟨_, rfl⟩ | hm
    · exact h.1
    · exact ih h.2 hm

mutual
/-- msgspec: values of a type whose handler class is not `custom` survive `to_builtins`, the codec and `structure` -/
theorem rtb (hw : w.WF = true) (he : env.OK) (hf : cf.fmt = .msgspec) : ∀ (t : PTy) (x : Obj),
    hk cf t ≠ .custom → sup w cf t = true → confP w t x = true → Good w env cf t (toB w env) x
  | .int, x, _, _, hc => by cases x <;> simp [confP] at hc; simp [Good, toB, enc, norm, stP, toIntE]
  | .str, x, _, _, hc => by cases x <;> simp [confP] at hc; simp [Good, toB, enc, norm, stP, pyStr]
  | .bool, x, _, _, hc => by cases x <;> simp [confP] at hc; simp [Good, toB, enc, norm, stP, Obj.truthy]
  | .float, x, hh, _, hc => by
      cases x <;> simp [confP] at hc
      cases hu : cf.uhook <;> simp [hk, hu] at hh
      simp [Good, toB, enc, norm, stP, toFltE, hu]
  | .bytes, x, _, _, hc => by
      cases x <;> simp [confP] at hc
      simp [Good, toB, enc, norm, stP, hf, he.b64]
  | .datetime, x, _, _, hc => by
      cases x <;> simp [confP] at hc
      simp [Good, toB, enc, norm, stP, hf, he.iso, hc]
  | .date, x, _, _, hc => by
      cases x <;> simp [confP] at hc
      simp [Good, toB, enc, norm, stP, hf, he.iso, hc]
  | .enum e, x, _, _, hc => by
      obtain ⟨m, rfl, hm⟩ := conf_enum_invP hc
      obtain ⟨_, _, hsi, _, _⟩ := value_spec hw hm
      have hleaf : enc w cf.fmt (w.value e m) = true ∧ norm w env cf.fmt (w.value e m) = w.value e m := by
        cases hv : w.value e m <;> simp [hv, isStrObj, isIntObj] at hsi <;> simp [enc, norm]
      simp only [Good, toB, hleaf.1, hleaf.2, true_and]
      exact st_enum_value hw hm
  | .lit vs, x, _, _, hc => by
      simp only [confP, Bool.and_eq_true, List.contains_iff_mem] at hc
      have hm : Obj.memPy x vs = true := memPy_of_mem (by simpa using hc.2)
      cases x <;> simp [litLeaf] at hc <;> simp [Good, toB, enc, norm, stP, hm]
  | .punion _, _, hh, _, _ => by simp [hk] at hh
  | .opt _, _, hh, _, _ => by simp [hk] at hh
  | .tupleHet _, _, hh, _, _ => by simp [hk] at hh
  | .td _, _, hh, _, _ => by simp [hk] at hh
  | .coll k t, x, hh, hs, hc => by
      cases x with
      | coll ck xs =>
        have hc2 := hc
        simp only [confP, Bool.and_eq_true, beq_iff_eq, List.all_eq_true] at hc2
        obtain ⟨⟨hck, hall⟩, hnd⟩ := hc2
        simp only [sup, Bool.and_eq_true] at hs
        cases hks : isSetK k
        · simp only [hk, hks, Bool.false_eq_true, if_false] at hh
          have hdq : k ≠ .deque := by
            intro hd
            have := hs.2
            subst hd
            simp [isSetK, hf, hh] at this
          have hcs : ck = .list ∨ ck = .tuple := by
            cases k <;> simp_all [SK.structTo, isSetK]
          have hu : toB w env (.coll ck xs) = .coll ck (xs.map (toB w env)) := by
            rcases hcs with h | h <;> simp [toB, toBL_eq_map, h]
          unfold Good
          rw [hu]
          exact good_coll_list k ck xs ck hck hnd hcs (fun y hy => rtb hw he hf t y hh hs.1 (hall y hy))
        · simp [hk, hks] at hh
      | _ => simp [confP] at hc
  | .map k kt vt, x, hh, hs, hc => by
      cases x with
      | dict kvs =>
        have hc2 := hc
        simp only [confP, Bool.and_eq_true, List.all_eq_true] at hc2
        obtain ⟨hall, hnd⟩ := hc2
        simp only [hk] at hh
        split at hh
        · simp at hh
        · split at hh
          · rename_i hk2
            simp only [Bool.and_eq_true, bne_iff_ne, ne_eq] at hk2
            simp only [sup, Bool.and_eq_true] at hs
            obtain ⟨⟨⟨hkt, _⟩, hsv⟩, _⟩ := hs
            have hu : toB w env (.dict kvs) = .dict (mkDict (kvs.map (fun p => (toB w env p.1, toB w env p.2)))) := by
              simp [toB, toBKV_eq_map]
            unfold Good
            rw [hu]
            exact good_map k kt vt kvs _ _ hnd
              (fun p hp => (key_toB hw he hf hkt hk2.1 (hall p hp).1).1)
              (fun p hp => rtb hw he hf vt p.2 hk2.2 hsv (hall p hp).2)
              (fun p hp q hq => (key_toB hw he hf hkt hk2.1 (hall p hp).1).2 q.1 (hall q hq).1)
          · simp at hh
      | _ => simp [confP] at hc
  | .cls c dc fs, x, hh, hs, hc => by
      cases x with
      | inst c' vs =>
        simp only [confP, Bool.and_eq_true, beq_iff_eq] at hc
        obtain ⟨rfl, hcf⟩ := hc
        simp only [sup, Bool.and_eq_true] at hs
        simp only [hk] at hh
        split at hh
        · simp at hh
        · rename_i hcu
          simp only [Bool.or_eq_true, Bool.and_eq_true, Bool.not_eq_true', not_or, Bool.not_eq_true] at hcu
          exact good_cls_toB hs.2 hcf (rtbF hw he hf fs hcu.2 hs.1)
      | _ => simp [confP] at hc
theorem rtbF (hw : w.WF = true) (he : env.OK) (hf : cf.fmt = .msgspec) : ∀ (fs : List (String × PTy)),
    customF cf fs = false → supF w cf fs = true →
    ∀ (n : String) (t : PTy) (x : Obj), (n, t) ∈ fs → confP w t x = true → Good w env cf t (toB w env) x
  | [], _, _, _, _, _, hm, _ => by simp at hm
  | (n0, t0) :: fs, hcu, hs, n, t, x, hm, hc => by
      simp only [supF, Bool.and_eq_true] at hs
      simp only [customF, Bool.or_eq_false_iff, beq_eq_false_iff_ne, ne_eq] at hcu
      simp only [List.mem_cons, Prod.mk.injEq] at hm
      rcases hm with ⟨rfl, rfl⟩ | hm
      · exact rtb hw he hf t x hcu.1 hs.1 hc
      · exact rtbF hw he hf fs hcu.2 hs.2 n t x hm hc
end

end CattrsModel.Preconf
