import CattrsModel.Preconf.Model
import CattrsModel.Lemmas.RoundTripBase
/-!
# Lemmas for the preconf round trip (C16)
-/
namespace CattrsModel.Preconf
open CattrsModel

variable {w : EW} {env : Env} {cf : Conf}

theorem normL_eq_map (fmt : Fmt) (xs : List Obj) : normL w env fmt xs = xs.map (norm w env fmt) := by
  induction xs with
  | nil => simp [normL]
  | cons x xs ih => simp [normL, ih]

theorem encL_eq_all (fmt : Fmt) (xs : List Obj) : encL w fmt xs = xs.all (enc w fmt) := by
  induction xs with
  | nil => simp [encL]
  | cons x xs ih => simp [encL, ih]

theorem toBL_eq_map (xs : List Obj) : toBL w env xs = xs.map (toB w env) := by
  induction xs with
  | nil => simp [toBL]
  | cons x xs ih => simp [toBL, ih]

theorem mapOpt_map {α β : Type} (f : α → β) (g : β → Option α) (xs : List α)
    (h : ∀ x ∈ xs, g (f x) = some x) : mapOpt g (xs.map f) = some xs := by
  induction xs with
  | nil => simp [mapOpt]
  | cons x xs ih =>
    simp only [List.map_cons, mapOpt]
    rw [h x (by simp), ih (fun y hy => h y (by simp [hy]))]

theorem all_of_forall {α : Type} {p : α → Bool} {xs : List α} (h : ∀ x ∈ xs, p x = true) : xs.all p = true := by
  simpa using h

/-- the sequence / set container produced by structuring is the conforming value's own container -/
theorem mkColl_conf {ck : CK} {xs : List Obj} (h : (!ck.isSet || nodupPy xs) = true) : mkColl ck xs = .coll ck xs := by
  unfold mkColl
  cases hk : ck.isSet
  · simp
  · simp [hk] at h; simp [mkSet_of_nodup xs h]

/-- the round-trip statement for one type and value -/
def RT (w : EW) (env : Env) (cf : Conf) (t : PTy) (x : Obj) : Prop :=
  enc w cf.fmt (unP w env cf t x) = true ∧ stP w env cf t (norm w env cf.fmt (unP w env cf t x)) = some x

theorem rt_int {x : Obj} (hc : confP w .int x = true) : RT w env cf .int x := by
  cases x <;> simp [confP] at hc
  simp [RT, unP, norm, stP, enc, toIntE]

theorem rt_str {x : Obj} (hc : confP w .str x = true) : RT w env cf .str x := by
  cases x <;> simp [confP] at hc
  simp [RT, unP, norm, stP, enc, pyStr]

theorem rt_bool {x : Obj} (hc : confP w .bool x = true) : RT w env cf .bool x := by
  cases x <;> simp [confP] at hc
  simp [RT, unP, norm, stP, enc, Obj.truthy]

theorem rt_float {x : Obj} (hc : confP w .float x = true) : RT w env cf .float x := by
  cases x <;> simp [confP] at hc
  rename_i k
  cases hu : cf.uhook <;> simp [RT, unP, norm, stP, enc, toFltE, hu]

theorem rt_bytes (he : env.OK) {x : Obj} (hc : confP w .bytes x = true) : RT w env cf .bytes x := by
  cases x <;> simp [confP] at hc
  rename_i h
  cases hf : cf.fmt
  · by_cases hh : h = ""
    · simp [RT, unP, norm, stP, enc, hf, hh, he.b85e]
    · simp [RT, unP, norm, stP, enc, hf, hh, he.b85]
  · simp [RT, unP, norm, stP, enc, hf, Obj.toBytes?]
  · simp [RT, unP, norm, stP, enc, hf, he.b64]

theorem rt_datetime (he : env.OK) {x : Obj} (hc : confP w .datetime x = true) : RT w env cf .datetime x := by
  cases x <;> simp [confP] at hc
  rename_i n
  cases hf : cf.fmt <;> simp [RT, unP, norm, stP, enc, hf, he.iso, hc]

theorem rt_date (he : env.OK) {x : Obj} (hc : confP w .date x = true) : RT w env cf .date x := by
  cases x <;> simp [confP] at hc
  rename_i n
  cases hf : cf.fmt <;> simp [RT, unP, norm, stP, enc, hf, he.iso, hc]

/-! ### enums -/

theorem wf_enum (hw : w.WF = true) {e : Nat} {p : EK × List Obj} (h : w.enums[e]? = some p) : enumWF p = true := by
  unfold EW.WF at hw
  rw [List.all_eq_true] at hw
  exact hw p (List.mem_of_getElem? h)

/-- a member value of a well-formed enum table -/
theorem value_spec (hw : w.WF = true) {e m : Nat} (hm : m < (w.members e).length) :
    (w.members e)[m]? = some (w.value e m) ∧ nodupPy (w.members e) = true
      ∧ (isStrObj (w.value e m) = true ∨ isIntObj (w.value e m) = true)
      ∧ (w.kind e = .intMix → isIntObj (w.value e m) = true)
      ∧ (w.kind e = .strMix → isStrObj (w.value e m) = true) := by
  unfold EW.members at hm
  cases hq : w.enums[e]? with
  | none => simp [hq] at hm
  | some p =>
    have hwf := wf_enum hw hq
    simp only [hq] at hm
    have hmem : (w.members e) = p.2 := by simp [EW.members, hq]
    have hk : w.kind e = p.1 := by simp [EW.kind, hq]
    have hget : p.2[m]? = some (p.2[m]) := by simp [hm]
    have hv : w.value e m = p.2[m] := by simp [EW.value, hmem, hget]
    unfold enumWF at hwf
    simp only [Bool.and_eq_true] at hwf
    have hin : p.2[m] ∈ p.2 := List.getElem_mem hm
    refine ⟨by rw [hmem, hv]; exact hget, by rw [hmem]; exact hwf.1, ?_, ?_, ?_⟩
    · rw [hv]
      cases hp : p.1 <;> simp only [hp, List.all_eq_true] at hwf
      · have := hwf.2 _ hin; simpa [Bool.or_eq_true] using this
      · exact Or.inr (hwf.2 _ hin)
      · exact Or.inl (hwf.2 _ hin)
    · intro hi; rw [hk] at hi; rw [hv]; simp only [hi, List.all_eq_true] at hwf; exact hwf.2 _ hin
    · intro hi; rw [hk] at hi; rw [hv]; simp only [hi, List.all_eq_true] at hwf; exact hwf.2 _ hin

theorem st_enum_value (hw : w.WF = true) {e m : Nat} (hm : m < (w.members e).length) :
    stP w env cf (.enum e) (w.value e m) = some (.enumM e m) := by
  obtain ⟨hget, hnd, hk, _, _⟩ := value_spec hw hm
  have hidx := enumIdx_get hnd hget
  cases hv : w.value e m <;> simp [hv, isStrObj, isIntObj] at hk <;> simp [stP, enumOfP, ← hv, hidx]

theorem rt_enum (hw : w.WF = true) {e : Nat} {x : Obj} (hc : confP w (.enum e) x = true) : RT w env cf (.enum e) x := by
  cases x <;> simp [confP] at hc
  rename_i e' m
  obtain ⟨rfl, hm⟩ := hc
  obtain ⟨fmt, uh⟩ := cf
  have hst : ∀ f, stP w env ⟨f, uh⟩ (.enum e) (w.value e m) = some (.enumM e m) := fun f => st_enum_value hw hm
  obtain ⟨_, _, hk, _, _⟩ := value_spec hw hm
  have hleaf : ∀ f, enc w f (w.value e m) = true ∧ norm w env f (w.value e m) = w.value e m := by
    intro f
    cases hv : w.value e m <;> simp [hv, isStrObj, isIntObj] at hk <;> simp [enc, norm]
  cases fmt
  · by_cases hp : w.kind e = .plain
    · simp [RT, unP, hp, (hleaf .json).1, (hleaf .json).2, hst]
    · simp [RT, unP, hp, enc, norm, hst]
  · simp [RT, unP, (hleaf .yaml).1, (hleaf .yaml).2, hst]
  · simp [RT, unP, enc, norm, hst]

/-! ### literals and native unions -/

theorem rt_lit {vs : List Obj} {x : Obj} (hc : confP w (.lit vs) x = true) : RT w env cf (.lit vs) x := by
  simp only [confP, Bool.and_eq_true, List.contains_iff_mem] at hc
  have hm : Obj.memPy x vs = true := memPy_of_mem (by simpa using hc.2)
  cases x <;> simp [litLeaf] at hc <;> simp [RT, unP, enc, norm, stP, hm]

theorem rt_punion {ls : List LK} {x : Obj} (hs : sup w cf (.punion ls) = true) (hc : confP w (.punion ls) x = true) :
    RT w env cf (.punion ls) x := by
  obtain ⟨fmt, uh⟩ := cf
  simp only [sup, List.all_eq_true] at hs
  simp only [confP] at hc
  cases x <;> simp [leafKind] at hc <;> simp [RT, unP, enc, norm, stP, leafKind, hc]
  · have := hs _ hc; cases fmt <;> simp_all [nativeLK]
  · rename_i n
    split at hc
    · have := hs _ hc; cases fmt <;> simp_all [nativeLK]
    · have := hs _ hc; cases fmt <;> simp_all [nativeLK]

/-! ### msgspec pass-through: what `unP` is when the handler class is not `custom` -/

theorem unP_ident (hf : cf.fmt = .msgspec) : ∀ (t : PTy) (x : Obj), hk cf t = .ident → confP w t x = true →
    unP w env cf t x = x := by
  intro t x hh hc
  obtain ⟨fmt, uh⟩ := cf
  simp only at hf; subst hf
  cases t with
  | int | str | bool | bytes | lit _ | punion _ | tupleHet _ | opt _ | td _ => cases x <;> simp_all [hk, confP, unP]
  | datetime | date | enum _ => cases x <;> simp_all [hk, confP, unP]
  | float => cases x <;> simp_all [hk, confP, unP]
  | coll k t =>
    cases x <;> simp [confP] at hc
    cases hks : isSetK k <;> simp [hk, hks] at hh
    simp [unP, hks, hh]
  | map k kt vt =>
    simp only [hk] at hh
    split at hh
    · cases hh
    · split at hh <;> cases hh
  | cls c dc fs => simp only [hk] at hh; split at hh <;> cases hh

theorem unP_toB (hf : cf.fmt = .msgspec) : ∀ (t : PTy) (x : Obj), hk cf t = .toB → confP w t x = true →
    unP w env cf t x = toB w env x := by
  intro t x hh hc
  obtain ⟨fmt, uh⟩ := cf
  simp only at hf; subst hf
  cases t with
  | int | str | bool | lit _ | punion _ | tupleHet _ | opt _ | td _ | datetime | date | enum _ => simp [hk] at hh
  | float => simp [hk] at hh; split at hh <;> simp at hh
  | bytes => cases x <;> simp_all [hk, confP, unP, toB]
  | coll k t =>
    cases x <;> simp [confP] at hc
    cases hks : isSetK k <;> simp [hk, hks] at hh
    simp [unP, hks, hh]
  | map k kt vt =>
    cases x <;> simp [confP] at hc
    simp only [hk] at hh
    split at hh
    · simp at hh
    · rename_i hk1
      split at hh
      · rename_i hk2
        simp only [Bool.and_eq_true, bne_iff_ne, ne_eq] at hk2
        have hk1' : k ≠ .counter := by simpa using hk1
        simp [unP, hk1', hk2]
      · simp at hh
  | cls c dc fs =>
    cases x <;> simp [confP] at hc
    simp only [hk] at hh
    split at hh
    · simp at hh
    · rename_i hk1
      simp [unP, hk1]

/-! ### homogeneous collections whose unstructured form is a list (or passed through) -/

theorem stP_coll_list (k : SK) (t : PTy) (ck : CK) (xs ys : List Obj) (c : CK)
    (hck : ck = k.structTo) (hnd : (!ck.isSet || nodupPy xs) = true)
    (hc : c = .list ∨ c = .tuple ∨ c = .deque)
    (h : mapOpt (stP w env cf t) ys = some xs) :
    stP w env cf (.coll k t) (.coll c ys) = some (.coll ck xs) := by
  simp [stP, iterItems, h, ← hck, mkColl_conf hnd]

theorem rt_coll (k : SK) (t : PTy) (ck : CK) (xs : List Obj)
    (hs : sup w cf (.coll k t) = true) (hc : confP w (.coll k t) (.coll ck xs) = true)
    (hl : listTarget cf k = true)
    (ih : ∀ x ∈ xs, RT w env cf t x) : RT w env cf (.coll k t) (.coll ck xs) := by
  simp only [confP, Bool.and_eq_true, beq_iff_eq, List.all_eq_true] at hc
  obtain ⟨⟨hck, hall⟩, hnd⟩ := hc
  have hst : ∀ x ∈ xs, stP w env cf t (norm w env cf.fmt (unP w env cf t x)) = some x := fun x hx => (ih x hx).2
  have hen : ∀ x ∈ xs, enc w cf.fmt (unP w env cf t x) = true := fun x hx => (ih x hx).1
  have hmap : mapOpt (stP w env cf t) (xs.map (fun x => norm w env cf.fmt (unP w env cf t x))) = some xs :=
    mapOpt_map _ _ _ hst
  simp only [sup, Bool.and_eq_true] at hs
  by_cases hpi : (cf.fmt == .msgspec && !isSetK k && hk cf t == .ident) = true
  · -- passed through unchanged
    simp only [Bool.and_eq_true, beq_iff_eq, Bool.not_eq_true'] at hpi
    obtain ⟨⟨hf, hks⟩, hh⟩ := hpi
    have hid : ∀ x ∈ xs, unP w env cf t x = x := fun x hx => unP_ident hf t x hh (hall x hx)
    have hu : unP w env cf (.coll k t) (.coll ck xs) = .coll ck xs := by simp [unP, hf, hks, hh]
    have hm2 : mapOpt (stP w env cf t) (xs.map (norm w env cf.fmt)) = some xs := by
      apply mapOpt_map; intro x hx; have := hst x hx; rwa [hid x hx] at this
    have hdq : ck ≠ .deque := by
      intro hd
      have : k = .deque := by cases k <;> simp_all [SK.structTo]
      simp [this, hf, hh, isSetK] at hs
    have hcs : ck = .list ∨ ck = .tuple := by
      cases k <;> simp_all [SK.structTo, isSetK]
    refine ⟨?_, ?_⟩
    · rw [hu]
      simp only [enc, encL_eq_all, Bool.and_eq_true, List.all_eq_true]
      refine ⟨by rcases hcs with h | h <;> simp [h], fun x hx => ?_⟩
      have := hen x hx; rwa [hid x hx] at this
    · rw [hu]
      have hn : norm w env cf.fmt (.coll ck xs) = .coll .list (xs.map (norm w env cf.fmt)) := by
        rcases hcs with h | h <;> simp [norm, normL_eq_map, h, hf]
      rw [hn]
      exact stP_coll_list k t ck xs _ .list hck hnd (Or.inl rfl) hm2
  · by_cases hpt : (cf.fmt == .msgspec && !isSetK k && hk cf t == .toB) = true
    · simp only [Bool.and_eq_true, beq_iff_eq, Bool.not_eq_true'] at hpt
      obtain ⟨⟨hf, hks⟩, hh⟩ := hpt
      have hid : ∀ x ∈ xs, unP w env cf t x = toB w env x := fun x hx => unP_toB hf t x hh (hall x hx)
      have hcs : ck = .list ∨ ck = .tuple := by
        have hdq : ck ≠ .deque := by
          intro hd
          have : k = .deque := by cases k <;> simp_all [SK.structTo]
          simp [this, hf, hh, isSetK] at hs
        cases k <;> simp_all [SK.structTo, isSetK]
      have hu : unP w env cf (.coll k t) (.coll ck xs) = .coll ck (xs.map (toB w env)) := by
        rcases hcs with h | h <;> simp [unP, hf, hks, hh, toB, toBL_eq_map, h]
      have hm2 : mapOpt (stP w env cf t) (xs.map (fun x => norm w env cf.fmt (toB w env x))) = some xs := by
        apply mapOpt_map; intro x hx; have := hst x hx; rwa [hid x hx] at this
      refine ⟨?_, ?_⟩
      · rw [hu]
        simp only [enc, encL_eq_all, Bool.and_eq_true, List.all_eq_true, List.mem_map]
        refine ⟨by rcases hcs with h | h <;> simp [h], ?_⟩
        rintro y ⟨x, hx, rfl⟩
        have := hen x hx; rwa [hid x hx] at this
      · rw [hu]
        have hn : norm w env cf.fmt (.coll ck (xs.map (toB w env)))
            = .coll .list (xs.map (fun x => norm w env cf.fmt (toB w env x))) := by
          rcases hcs with h | h <;> simp [norm, normL_eq_map, h, hf, List.map_map, Function.comp_def]
        rw [hn]
        exact stP_coll_list k t ck xs _ .list hck hnd (Or.inl rfl) hm2
    · -- generated iterable hook: a list of the unstructured elements
      have hu : unP w env cf (.coll k t) (.coll ck xs) = .coll .list (xs.map (unP w env cf t)) := by
        have ht : unTarget cf.fmt k = .list := by
          unfold listTarget at hl; split at hl <;> simp_all
        simp only [unP]
        rw [if_neg (by simpa using hpi), if_neg (by simpa using hpt), ht]
        simp [mkColl, CK.isSet]
      refine ⟨?_, ?_⟩
      · rw [hu]
        simp only [enc, encL_eq_all, Bool.and_eq_true, List.all_eq_true, List.mem_map]
        refine ⟨by cases cf.fmt <;> trivial, ?_⟩
        rintro y ⟨x, hx, rfl⟩
        exact hen x hx
      · rw [hu]
        have hn : norm w env cf.fmt (.coll .list (xs.map (unP w env cf t)))
            = .coll .list (xs.map (fun x => norm w env cf.fmt (unP w env cf t x))) := by
          cases hf : cf.fmt <;> simp [norm, normL_eq_map, List.map_map, Function.comp_def]
        rw [hn]
        exact stP_coll_list k t ck xs _ .list hck hnd (Or.inl rfl) hmap

/-! ### Optional -/

theorem toB_ne_none {x : Obj} (hx : ∀ e m, x = .enumM e m → w.value e m ≠ .none) (h : x ≠ .none) : toB w env x ≠ .none := by
  cases x <;> simp_all [toB]

def notOptUnion : PTy → Bool
  | .opt _ | .punion _ => false
  | _ => true

/-- the decoded form of a non-`None` value of a type that is neither Optional nor a union is not `None` -/
theorem wire_ne_none (hw : w.WF = true) {t : PTy} {x : Obj} (hc : confP w t x = true) (hx : x ≠ .none)
    (ht : notOptUnion t = true) :
    norm w env cf.fmt (unP w env cf t x) ≠ .none := by
  obtain ⟨fmt, uh⟩ := cf
  cases t with
  | opt _ | punion _ => simp [notOptUnion] at ht
  | int | str | bool => cases x <;> simp [confP] at hc <;> simp [unP, norm]
  | float => cases x <;> simp [confP] at hc; simp only [unP]; split <;> simp [norm]
  | lit _ => cases x <;> simp [confP, litLeaf] at hc <;> simp [unP, norm]
  | bytes | datetime | date => cases x <;> simp [confP] at hc <;> cases fmt <;> simp [unP, norm]
  | enum e =>
    cases x with
    | enumM e' m =>
    simp [confP] at hc
    obtain ⟨rfl, hm⟩ := hc
    obtain ⟨_, _, hk, _, _⟩ := value_spec hw hm
    have hv : ∀ f, norm w env f (w.value e m) ≠ .none := by
      intro f; cases hv : w.value e m <;> simp [hv, isStrObj, isIntObj] at hk <;> simp [norm]
    have hv2 : w.value e m ≠ .none := by
      cases hv : w.value e m <;> simp [hv, isStrObj, isIntObj] at hk <;> simp
    cases fmt <;> simp only [unP]
    · split
      · exact hv _
      · simpa [norm] using hv2
    · exact hv _
    · simpa [norm] using hv2
    | _ => simp [confP] at hc
  | coll k t =>
    cases x <;> simp [confP] at hc
    simp only [unP]
    split
    · simp [norm]
    · split
      · simp [toB, norm]
      · simp [mkColl, norm]
  | tupleHet ts =>
    cases x with
    | coll ck xs => cases ck <;> simp [confP] at hc <;> simp [unP, norm]
    | _ => simp [confP] at hc
  | map k kt vt =>
    cases x <;> simp [confP] at hc
    simp only [unP]
    split <;> simp [toB, norm]
  | cls c dc fs =>
    cases x <;> simp [confP] at hc
    simp only [unP]
    split <;> simp [toB, norm]
  | td fs =>
    cases x <;> simp [confP] at hc
    simp only [unP]
    split <;> simp [norm]

theorem rt_opt (hw : w.WF = true) {t : PTy} {x : Obj} (hs : sup w cf (.opt t) = true) (hc : confP w (.opt t) x = true)
    (ih : confP w t x = true → RT w env cf t x) : RT w env cf (.opt t) x := by
  by_cases hx : x = .none
  · subst hx; simp [RT, unP, enc, norm, stP]
  · have hc' : confP w t x = true := by cases x <;> simp_all [confP]
    have hu : unP w env cf (.opt t) x = unP w env cf t x := by cases x <;> simp_all [unP]
    simp only [sup, Bool.and_eq_true] at hs
    have hnu : notOptUnion t = true := by
      have := hs.2
      cases t <;> simp_all [notOptUnion]
    have hne := wire_ne_none (env := env) (cf := cf) hw hc' hx hnu
    obtain ⟨h1, h2⟩ := ih hc'
    refine ⟨by rw [hu]; exact h1, ?_⟩
    rw [hu]
    have : stP w env cf (.opt t) (norm w env cf.fmt (unP w env cf t x)) = stP w env cf t (norm w env cf.fmt (unP w env cf t x)) := by
      generalize norm w env cf.fmt (unP w env cf t x) = v at hne
      cases v <;> simp_all [stP]
    rw [this]; exact h2

/-! ### classes (generated dict hooks) -/

theorem normKey_str (fmt : Fmt) (n : String) : normKey w env fmt (.str n) = .str n := by
  unfold normKey; split <;> rfl

theorem dlookup_str_cons (n n' : String) (a : Obj) (rest : List (Obj × Obj)) :
    dlookup ((.str n, a) :: rest) (.str n') = if n = n' then some a else dlookup rest (.str n') := by
  simp only [dlookup]
  by_cases h : n = n'
  · subst h; simp [Obj.pyEq_refl]
  · have : Obj.pyEq (.str n) (.str n') = false := by
      simp [Obj.pyEq, Obj.num2?, h]
    simp [this, h]

/-- the decoded payload of a class instance: one entry per field, keyed by the field name -/
def wireF (w : EW) (env : Env) (cf : Conf) : List (String × PTy) → List (String × Obj) → List (Obj × Obj)
  | (n, t) :: fs, (_, x) :: rest => (.str n, norm w env cf.fmt (unP w env cf t x)) :: wireF w env cf fs rest
  | _, _ => []

theorem normKV_unF : ∀ (fs : List (String × PTy)) (vs : List (String × Obj)),
    normKV w env cf.fmt (unF w env cf fs vs) = wireF w env cf fs vs
  | [], _ => by simp [unF, normKV, wireF]
  | _ :: _, [] => by simp [unF, normKV, wireF]
  | (n, t) :: fs, (_, x) :: rest => by simp [unF, normKV, wireF, normKey_str, normKV_unF fs rest]

theorem keys_wireF : ∀ (fs : List (String × PTy)) (vs : List (String × Obj)), confF w fs vs = true →
    keysOf (wireF w env cf fs vs) = namesOf fs
  | [], [], _ => by simp [wireF, keysOf, namesOf]
  | [], _ :: _, h => by simp [confF] at h
  | _ :: _, [], h => by simp [confF] at h
  | (n, t) :: fs, (n', x) :: rest, h => by
      simp only [confF, Bool.and_eq_true] at h
      have := keys_wireF fs rest h.2
      simp only [keysOf, namesOf] at this
      simp [wireF, keysOf, namesOf, this]

theorem dlookup_absent (D : List (Obj × Obj)) (n : String) (h : Obj.memPy (.str n) (keysOf D) = false) :
    dlookup D (.str n) = Option.none := dlookup_none_iff.mpr h

theorem stF_wire (pre : List (Obj × Obj)) : ∀ (fs : List (String × PTy)) (vs : List (String × Obj)),
    confF w fs vs = true → nodupPy (namesOf fs) = true →
    (∀ p ∈ fs, Obj.memPy (.str p.1) (keysOf pre) = false) →
    (∀ (n : String) (t : PTy) (x : Obj), (n, t) ∈ fs → confP w t x = true →
        stP w env cf t (norm w env cf.fmt (unP w env cf t x)) = some x) →
    stF w env cf fs (pre ++ wireF w env cf fs vs) = some vs
  | [], [], _, _, _, _ => by simp [stF]
  | [], _ :: _, h, _, _, _ => by simp [confF] at h
  | _ :: _, [], h, _, _, _ => by simp [confF] at h
  | (n, t) :: fs, (n', x) :: rest, hc, hnd, hpre, ih => by
      simp only [confF, Bool.and_eq_true, beq_iff_eq] at hc
      obtain ⟨⟨hn, hcx⟩, hcr⟩ := hc
      subst hn
      simp only [namesOf, List.map_cons, nodupPy, Bool.and_eq_true, Bool.not_eq_true'] at hnd
      have hlook : dlookup (pre ++ wireF w env cf ((n, t) :: fs) ((n, x) :: rest)) (.str n)
          = some (norm w env cf.fmt (unP w env cf t x)) := by
        have hp := hpre (n, t) (by simp)
        clear ih hpre
        induction pre with
        | nil => simp [wireF, dlookup_str_cons]
        | cons q pre ihp =>
          obtain ⟨k, v⟩ := q
          simp only [keysOf, List.map_cons, Obj.memPy, Bool.or_eq_false_iff] at hp
          simp only [List.cons_append, dlookup, hp.1, Bool.false_eq_true, if_false]
          exact ihp (by simpa [keysOf] using hp.2)
      have hrec := stF_wire (pre ++ [(.str n, norm w env cf.fmt (unP w env cf t x))]) fs rest hcr hnd.2
        (by
          intro p hp
          have h1 := hpre p (by simp [hp])
          simp only [keysOf, List.map_append, List.map_cons, List.map_nil] at h1 ⊢
          rw [memPy_append]
          simp only [h1, Obj.memPy, Bool.or_false, Bool.false_or]
          by_cases hpn : n = p.1
          · exfalso
            have : Obj.memPy (.str n) (namesOf fs) = true := by
              apply memPy_of_mem; simp only [namesOf, List.mem_map]; exact ⟨p, hp, by rw [hpn]⟩
            simp only [namesOf] at this
            rw [this] at hnd; cases hnd.1
          · simp [Obj.pyEq, Obj.num2?, hpn])
        (fun n' t' x' hm hc' => ih n' t' x' (by simp [hm]) hc')
      simp only [stF, hlook, ih n t x (by simp) hcx]
      have : pre ++ wireF w env cf ((n, t) :: fs) ((n, x) :: rest)
          = (pre ++ [(.str n, norm w env cf.fmt (unP w env cf t x))]) ++ wireF w env cf fs rest := by
        simp [wireF]
      rw [this, hrec]

theorem encKV_unF : ∀ (fs : List (String × PTy)) (vs : List (String × Obj)), confF w fs vs = true →
    (∀ (n : String) (t : PTy) (x : Obj), (n, t) ∈ fs → confP w t x = true → enc w cf.fmt (unP w env cf t x) = true) →
    encKV w cf.fmt (unF w env cf fs vs) = true
  | [], [], _, _ => by simp [unF, encKV]
  | [], _ :: _, h, _ => by simp [confF] at h
  | _ :: _, [], h, _ => by simp [confF] at h
  | (n, t) :: fs, (n', x) :: rest, hc, ih => by
      simp only [confF, Bool.and_eq_true] at hc
      have h1 := ih n t x (by simp) hc.1.2
      have h2 := encKV_unF fs rest hc.2 (fun n' t' x' hm hc' => ih n' t' x' (by simp [hm]) hc')
      simp [unF, encKV, h1, h2]
      split <;> simp [yamlKey, encKey]

/-- class instance through the generated dict hook (every format; msgspec when the class is not passed through) -/
theorem rt_cls_custom {c : Nat} {dc : Bool} {fs : List (String × PTy)} {c' : Nat} {vs : List (String × Obj)}
    (hs : sup w cf (.cls c dc fs) = true) (hc : confP w (.cls c dc fs) (.inst c' vs) = true)
    (hcust : (cf.fmt == .msgspec && !((!dc && privF fs) || customF cf fs)) = false)
    (ih : ∀ (n : String) (t : PTy) (x : Obj), (n, t) ∈ fs → confP w t x = true → RT w env cf t x) :
    RT w env cf (.cls c dc fs) (.inst c' vs) := by
  simp only [confP, Bool.and_eq_true, beq_iff_eq] at hc
  obtain ⟨rfl, hcf⟩ := hc
  simp only [sup, Bool.and_eq_true] at hs
  have hu : unP w env cf (.cls c dc fs) (.inst c vs) = .dict (unF w env cf fs vs) := by
    simp only [unP]; rw [if_neg (by simpa using hcust)]
  have hkeys : nodupPy (keysOf (wireF w env cf fs vs)) = true := by rw [keys_wireF fs vs hcf]; exact hs.2
  refine ⟨?_, ?_⟩
  · rw [hu]; simp only [enc]
    exact encKV_unF fs vs hcf (fun n t x hm hc' => (ih n t x hm hc').1)
  · rw [hu]
    simp only [norm, normKV_unF, mkDict_of_nodup _ hkeys, stP]
    have := stF_wire (env := env) (cf := cf) [] fs vs hcf hs.2 (by intro p _; simp [keysOf, Obj.memPy])
      (fun n t x hm hc' => (ih n t x hm hc').2)
    simp only [List.nil_append] at this
    simp [this]

/-! The recursion on the type that puts these cases together is `rt_all` in `Preconf/Lemmas7.lean`. -/

end CattrsModel.Preconf
