import CattrsModel.Preconf.Lemmas3
/-!
# C16, fourth layer: keys sent through `to_builtins` (msgspec); the round trip of mappings (`Counter` included)
through the generated mapping hook
-/
namespace CattrsModel.Preconf
open CattrsModel

variable {w : EW} {env : Env} {cf : Conf}

/-! ### keys through `to_builtins` -/

theorem toB_inj (hw : w.WF = true) (he : env.OK) {t : PTy} (ht : elemTy t = true) {a b : Obj}
    (ha : confP w t a = true) (hb : confP w t b = true)
    (h : Obj.pyEq (toB w env a) (toB w env b) = true) : Obj.pyEq a b = true := by
  cases t with
  | int | str | bool | float =>
    cases a <;> simp [confP] at ha <;> cases b <;> simp [confP] at hb <;> simpa [toB] using h
  | bytes =>
    cases a <;> simp [confP] at ha; cases b <;> simp [confP] at hb
    rename_i h1 h2
    simp only [toB, pyEq_str_str] at h
    have e1 := he.b64 h1
    rw [h, he.b64] at e1; cases e1; exact Obj.pyEq_refl _
  | datetime | date =>
    cases a <;> simp [confP] at ha <;> cases b <;> simp [confP] at hb
    all_goals
      rename_i n1 n2
      simp only [toB, pyEq_str_str] at h
      have e1 := he.iso n1
      rw [h, he.iso] at e1; cases e1; exact Obj.pyEq_refl _
  | enum e =>
    obtain ⟨m1, rfl, hm1⟩ := conf_enum_invP ha
    obtain ⟨m2, rfl, hm2⟩ := conf_enum_invP hb
    simp only [toB] at h
    rw [value_inj hw hm1 hm2 h]; exact Obj.pyEq_refl _
  | lit vs =>
    simp only [confP, Bool.and_eq_true] at ha hb
    cases a <;> simp [litLeaf] at ha <;> cases b <;> simp [litLeaf] at hb <;> simpa [toB] using h
  | punion _ | coll _ _ | tupleHet _ | map _ _ _ | opt _ | cls _ _ _ | td _ => simp [elemTy] at ht

/-- msgspec: `to_builtins` and the declared-type handler send keys with the same decoded form -/
theorem toB_normKey (hw : w.WF = true) (hf : cf.fmt = .msgspec) {kt : PTy} (hky : keyTy w cf.fmt kt = true)
    (hh : hk cf kt ≠ .custom) {a : Obj} (ha : confP w kt a = true) :
    normKey w env cf.fmt (toB w env a) = normKey w env cf.fmt (unP w env cf kt a) := by
  obtain ⟨fmt, uh⟩ := cf
  simp only at hf; subst hf
  cases kt with
  | int | str | bytes | datetime | date => cases a <;> simp [confP] at ha <;> simp [toB, unP, normKey]
  | float =>
    cases a <;> simp [confP] at ha
    cases uh <;> simp [hk] at hh
    all_goals simp [toB, unP, normKey]
  | bool => simp [keyTy] at hky
  | enum e =>
    obtain ⟨m, rfl, hm⟩ := conf_enum_invP ha
    simp only [keyTy, Bool.or_eq_true, beq_iff_eq, reduceCtorEq, false_or] at hky
    obtain ⟨s, hv⟩ := value_str hw hm hky
    simp [toB, unP, normKey, hv]
  | lit vs =>
    simp only [confP, Bool.and_eq_true] at ha
    cases a <;> simp [litLeaf] at ha <;> simp [toB, unP]
  | punion _ | coll _ _ | tupleHet _ | map _ _ _ | opt _ | cls _ _ _ | td _ => simp [keyTy] at hky

theorem toB_encKey (hw : w.WF = true) {kt : PTy} (hk : keyTy w .msgspec kt = true) {a : Obj}
    (ha : confP w kt a = true) : encKey w .msgspec (toB w env a) = true := by
  cases kt with
  | int | str | bytes | datetime | date | float => cases a <;> simp [confP] at ha <;> simp [toB, encKey]
  | bool => simp [keyTy] at hk
  | enum e =>
    obtain ⟨m, rfl, hm⟩ := conf_enum_invP ha
    simp only [keyTy, Bool.or_eq_true, beq_iff_eq, reduceCtorEq, false_or] at hk
    obtain ⟨s, hv⟩ := value_str hw hm hk
    simp [toB, hv, encKey]
  | lit vs =>
    simp only [confP, Bool.and_eq_true] at ha
    simp only [keyTy, Bool.or_eq_true, beq_iff_eq, reduceCtorEq, false_or] at hk
    have := List.all_eq_true.mp hk a (by simpa using ha.2)
    cases a <;> simp [isStrObj] at this
    simp [toB, encKey]
  | punion _ | coll _ _ | tupleHet _ | map _ _ _ | opt _ | cls _ _ _ | td _ => simp [keyTy] at hk

/-- keys of a mapping handed wholesale to `to_builtins` -/
theorem key_toB (hw : w.WF = true) (he : env.OK) (hf : cf.fmt = .msgspec) {kt : PTy}
    (hky : keyTy w cf.fmt kt = true) (hh : hk cf kt ≠ .custom) {a : Obj} (ha : confP w kt a = true) :
    KeyGood w env cf kt (toB w env) a ∧ ∀ b, confP w kt b = true → KeyInj w env cf (toB w env) a b := by
  refine ⟨⟨?_, ?_⟩, fun b hb => ⟨toB_inj hw he (keyTy_elemTy hky) ha hb, ?_⟩⟩
  · have := toB_encKey (env := env) hw (by rw [← hf]; exact hky) ha
    simp [encKeyF, hf, this]
  · rw [toB_normKey hw hf hky hh ha]; exact (key_st hw he hky ha).1
  · exact key_inj_of hw he hky ha hb (toB_normKey hw hf hky hh ha) (toB_normKey hw hf hky hh hb)

/-! ### mappings -/

/-- mappings through the generated mapping hook (every format; msgspec when the mapping is not passed through;
`Counter[K]` always: its keys go through `K`'s handler like those of any other mapping) -/
theorem rt_map_custom (hw : w.WF = true) (he : env.OK) {k : PMK} {kt vt : PTy} {kvs : List (Obj × Obj)}
    (hs : sup w cf (.map k kt vt) = true) (hc : confP w (.map k kt vt) (.dict kvs) = true)
    (hcust : (cf.fmt == .msgspec && k != .counter && hk cf kt != .custom && hk cf vt != .custom) = false)
    (ih : ∀ p ∈ kvs, RT w env cf vt p.2) : RT w env cf (.map k kt vt) (.dict kvs) := by
  simp only [confP, Bool.and_eq_true, List.all_eq_true] at hc
  obtain ⟨hall, hnd⟩ := hc
  simp only [sup, Bool.and_eq_true, Bool.not_eq_true'] at hs
  obtain ⟨⟨⟨hkt, _⟩, _⟩, _, hf20⟩ := hs
  have hp : cf.fmt = .msgspec → plainStrEnum w kt = false := by
    intro hf
    cases hpe : plainStrEnum w kt
    · rfl
    · exfalso
      -- a plain str-valued Enum key type has handler class `ident`, so the mapping is not passed through only
      -- because it is a Counter or the value handler is custom: excluded (finding F20)
      have hkk : hk cf kt = .ident := by cases kt <;> simp [plainStrEnum] at hpe <;> simp [hk]
      simp only [hf, hkk, hpe, beq_self_eq_true, Bool.true_and] at hcust hf20
      simp only [Bool.or_eq_false_iff, beq_eq_false_iff_ne, ne_eq] at hf20
      have h1 : (k != PMK.counter) = true := by simpa using hf20.1
      have h2 : (hk cf vt != HK.custom) = true := by simpa using hf20.2
      simp [h1, h2] at hcust
  have hu : unP w env cf (.map k kt vt) (.dict kvs)
      = .dict (mkDict (kvs.map (fun p => (unP w env cf kt p.1, unP w env cf vt p.2)))) := by
    simp only [unP]
    rw [if_neg (by simpa using hcust)]
  unfold RT
  rw [hu]
  exact good_map k kt vt kvs _ _ hnd
    (fun p hp' => (key_unP hw he hkt hp (hall p hp').1).1)
    ih
    (fun p hp' q hq => (key_unP hw he hkt hp (hall p hp').1).2 q.1 (hall q hq).1)

end CattrsModel.Preconf
