/-!
# The object universe

`Obj` models the Python objects that flow through cattrs, structured and unstructured alike.
Floats are restricted to half-integers (`flt k` is the float `k/2`), bytes are kept as a hex
string, sets are duplicate-free lists in iteration order, dicts are association lists in
insertion order (`mdict`: the same, tagged with the dict subclass).
-/
namespace CattrsModel

/-- Run-time container classes. -/
inductive CK where
  | list | tuple | deque | set | fset
  deriving DecidableEq, Repr, Inhabited

/-- Run-time mapping classes other than `dict` (`collections.OrderedDict`, `collections.defaultdict`,
`collections.Counter`): what a mapping-typed position is structured INTO when its declared class is not `dict` /
`Mapping` / `MutableMapping`. -/
inductive DK where
  | ordered | defaultdict | counter
  deriving DecidableEq, Repr, Inhabited

inductive Obj where
  | none
  | bool (b : Bool)
  | int (i : Int)
  | flt (twice : Int)
  | str (s : String)
  | bytes (hex : String)
  | enumM (e m : Nat)
  | coll (k : CK) (xs : List Obj)
  | dict (kvs : List (Obj × Obj))
  /-- an instance of a `dict` SUBCLASS (`OrderedDict`, `defaultdict`, `Counter`); the `default_factory` of a
  `defaultdict` is not part of the model (it is a function of the declared type) -/
  | mdict (k : DK) (kvs : List (Obj × Obj))
  | inst (c : Nat) (fs : List (String × Obj))
  | opaque (n : Nat)
  deriving Repr, Inhabited

end CattrsModel
