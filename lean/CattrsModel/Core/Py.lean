import CattrsModel.Core.ObjDecEq
/-!
# The slice of CPython's builtins that cattrs' leaf hooks call

Every function here is total and executable.  The correspondence check `PYENV` diff-tests each
of them against the real builtin on generated leaf values; anything outside the modelled
fragment is rendered with the marker character `unmodelledMark`, which the driver turns into
the reply `unmodelled` (never a guess).
-/
namespace CattrsModel

/-- Marker put into strings whose exact Python spelling is not modelled. -/
def unmodelledMark : Char := Char.ofNat 0xFFFF


/-- doubled numeric value of the bool/int/float tower -/
def Obj.num2? : Obj → Option Int
  | .bool b => some (if b then 2 else 0)
  | .int i => some (2 * i)
  | .flt k => some k
  | _ => Option.none

/-- Python `==` on the modelled fragment: numeric tower on leaves, structural otherwise. -/
def Obj.pyEq (x y : Obj) : Bool :=
  match Obj.num2? x, Obj.num2? y with
  | some a, some b => a == b
  | some _, Option.none => false
  | Option.none, some _ => false
  | Option.none, Option.none => x == y

theorem Obj.pyEq_refl (x : Obj) : Obj.pyEq x x = true := by
  unfold Obj.pyEq; cases h : Obj.num2? x <;> simp

theorem Obj.pyEq_symm (x y : Obj) : Obj.pyEq x y = Obj.pyEq y x := by
  unfold Obj.pyEq
  cases hx : Obj.num2? x <;> cases hy : Obj.num2? y <;> simp [Bool.beq_comm]

/-- `x in xs` for a list/tuple of candidates (uses `==`). -/
def Obj.memPy (x : Obj) : List Obj → Bool
  | [] => false
  | y :: ys => Obj.pyEq y x || Obj.memPy x ys

/-- truthiness (`bool(x)`) -/
def Obj.truthy : Obj → Bool
  | .none => false
  | .bool b => b
  | .int i => i != 0
  | .flt k => k != 0
  | .str s => s != ""
  | .bytes h => h != ""
  | .enumM _ _ => true
  | .coll _ xs => !xs.isEmpty
  | .dict kvs => !kvs.isEmpty
  | .mdict _ kvs => !kvs.isEmpty
  | .inst _ _ => true
  | .opaque _ => true


/-! ### numerals -/

def isDigit (c : Char) : Bool := '0' ≤ c && c ≤ '9'

def digitsVal (cs : List Char) : Nat := cs.foldl (fun acc c => acc * 10 + (c.toNat - 48)) 0

/-- `int(s)` for strings over the generated alphabet: optional `-`, then one or more ASCII digits. -/
def parseInt? (s : String) : Option Int :=
  match s.toList with
  | [] => Option.none
  | '-' :: ds => if !ds.isEmpty && ds.all isDigit then some (-(digitsVal ds : Int)) else Option.none
  | ds => if ds.all isDigit then some (digitsVal ds : Int) else Option.none

private def hexVal (c : Char) : Nat :=
  if '0' ≤ c && c ≤ '9' then c.toNat - 48
  else if 'a' ≤ c && c ≤ 'f' then c.toNat - 87
  else 0

private def hexDigit (n : Nat) : Char :=
  if n < 10 then Char.ofNat (48 + n) else Char.ofNat (87 + n)

def hexByte (n : Nat) : String := String.ofList [hexDigit ((n / 16) % 16), hexDigit (n % 16)]

/-- decode a hex string into byte values -/
def hexBytes : List Char → List Nat
  | a :: b :: rest => (hexVal a * 16 + hexVal b) :: hexBytes rest
  | _ => []

def bytesAscii (hex : String) : String := String.ofList ((hexBytes hex.toList).map Char.ofNat)

def natRepr (n : Nat) : String := toString n
def intRepr (i : Int) : String := toString i

/-- `repr` of the float `k/2` (positional notation; generated magnitudes stay below 1e16). -/
def fltRepr (k : Int) : String :=
  let neg := k < 0
  let a := k.natAbs
  (if neg then "-" else "") ++ natRepr (a / 2) ++ (if a % 2 == 0 then ".0" else ".5")

/-- bytes over `[a-z0-9]` print as themselves; anything else is marked unmodelled. -/
def bytesRepr (hex : String) : String :=
  let bs := hexBytes hex.toList
  let ok := bs.all (fun b => (48 ≤ b && b ≤ 57) || (97 ≤ b && b ≤ 122))
  if ok then "b'" ++ String.ofList (bs.map Char.ofNat) ++ "'" else String.singleton unmodelledMark

/-- strings over the generated alphabet (no quotes, backslashes or control characters) -/
def strRepr (s : String) : String :=
  if s.toList.all (fun c => c != '\'' && c != '\\' && 32 ≤ c.toNat && c.toNat < 127) then "'" ++ s ++ "'"
  else String.singleton unmodelledMark

def collRepr (k : CK) (rs : List String) : String :=
  match k with
  | .list => "[" ++ ", ".intercalate rs ++ "]"
  | .tuple => match rs with
    | [r] => "(" ++ r ++ ",)"
    | _ => "(" ++ ", ".intercalate rs ++ ")"
  | .deque => "deque([" ++ ", ".intercalate rs ++ "])"
  | .set => if rs.isEmpty then "set()" else "{" ++ ", ".intercalate rs ++ "}"
  | .fset => if rs.isEmpty then "frozenset()" else "frozenset({" ++ ", ".intercalate rs ++ "})"

mutual
/-- `repr(x)`; exact on leaves and on lists/tuples/dicts/sets of them. -/
def pyRepr : Obj → String
  | .none => "None"
  | .bool b => if b then "True" else "False"
  | .int i => intRepr i
  | .flt k => fltRepr k
  | .str s => strRepr s
  | .bytes h => bytesRepr h
  | .enumM _ _ => String.singleton unmodelledMark
  | .coll k xs => collRepr k (pyReprL xs)
  | .dict kvs => "{" ++ ", ".intercalate (pyReprKV kvs) ++ "}"
  | .mdict _ _ => String.singleton unmodelledMark
  | .inst _ _ => String.singleton unmodelledMark
  | .opaque _ => String.singleton unmodelledMark
termination_by structural x => x
def pyReprL : List Obj → List String
  | [] => []
  | x :: xs => pyRepr x :: pyReprL xs
termination_by structural x => x
def pyReprKV : List (Obj × Obj) → List String
  | [] => []
  | (k, v) :: rest => (pyRepr k ++ ": " ++ pyRepr v) :: pyReprKV rest
termination_by structural x => x
end

/-- `str(x)` -/
def pyStr : Obj → String
  | .str s => s
  | x => pyRepr x


/-- `int(x)`; `none` = the call raises. -/
def Obj.toInt? : Obj → Option Int
  | .bool b => some (if b then 1 else 0)
  | .int i => some i
  | .flt k => some (Int.tdiv k 2)
  | .str s => parseInt? s
  | .bytes h => parseInt? (bytesAscii h)
  | _ => Option.none

/-- `float(x)` as a doubled value -/
def Obj.toFlt? : Obj → Option Int
  | .bool b => some (if b then 2 else 0)
  | .int i => some (2 * i)
  | .flt k => some k
  | .str s => (parseInt? s).map (2 * ·)
  | .bytes h => (parseInt? (bytesAscii h)).map (2 * ·)
  | _ => Option.none

/-- items produced by `for e in x`; `none` = not iterable -/
def Obj.iter? : Obj → Option (List Obj)
  | .coll _ xs => some xs
  | .dict kvs => some (kvs.map (·.1))
  | .mdict _ kvs => some (kvs.map (·.1))
  | .str s => some (s.toList.map (fun c => .str (String.singleton c)))
  | .bytes h => some ((hexBytes h.toList).map (fun n => Obj.int (Int.ofNat n)))
  | _ => Option.none

/-- byte value of an element handed to `bytes(iterable)` -/
def Obj.byteVal? : Obj → Option Nat
  | .int i => if 0 ≤ i && i < 256 then some i.toNat else Option.none
  | .bool b => some (if b then 1 else 0)
  | _ => Option.none

def Obj.bytesOfItems : List Obj → Option String
  | [] => some ""
  | x :: xs => match Obj.byteVal? x, Obj.bytesOfItems xs with
    | some b, some r => some (hexByte b ++ r)
    | _, _ => Option.none

/-- `bytes(x)` (hex) -/
def Obj.toBytes? : Obj → Option String
  | .bytes h => some h
  | .bool b => some (if b then "00" else "")
  | .int i => if 0 ≤ i then some (String.join (List.replicate i.toNat "00")) else Option.none
  | .str _ => Option.none
  | .coll _ xs => Obj.bytesOfItems xs
  | .dict kvs => Obj.bytesOfItems (kvs.map (·.1))
  | .mdict _ kvs => Obj.bytesOfItems (kvs.map (·.1))
  | _ => Option.none

/-- Is the object a mapping (`isinstance(o, Mapping)`)? -/
def Obj.isMapping : Obj → Bool
  | .dict _ => true
  | .mdict _ _ => true
  | _ => false


/-! ### dict and set primitives (insertion ordered, `==`-keyed) -/

def dlookup (kvs : List (Obj × Obj)) (k : Obj) : Option Obj :=
  match kvs with
  | [] => Option.none
  | (k', v) :: rest => if Obj.pyEq k' k then some v else dlookup rest k

theorem dlookup_lt {kvs : List (Obj × Obj)} {k v} (h : dlookup kvs k = some v) : sizeOf v < sizeOf kvs := by
  induction kvs with
  | nil => simp [dlookup] at h
  | cons p rest ih =>
    cases p with
    | mk k' w =>
      simp only [dlookup] at h
      split at h
      · cases h; simp; omega
      · have := ih h; simp; omega

def dhas (kvs : List (Obj × Obj)) (k : Obj) : Bool := (dlookup kvs k).isSome

/-- `d[k] = v` -/
def dictSet : List (Obj × Obj) → Obj → Obj → List (Obj × Obj)
  | [], k, v => [(k, v)]
  | (k', v') :: rest, k, v => if Obj.pyEq k' k then (k', v) :: rest else (k', v') :: dictSet rest k v

def mkDict (kvs : List (Obj × Obj)) : List (Obj × Obj) := kvs.foldl (fun d kv => dictSet d kv.1 kv.2) []

/-- `del d[k]` / `d.pop(k, None)` -/
def dictDel : List (Obj × Obj) → Obj → List (Obj × Obj)
  | [], _ => []
  | (k', v') :: rest, k => if Obj.pyEq k' k then rest else (k', v') :: dictDel rest k

def setAdd (xs : List Obj) (x : Obj) : List Obj := if Obj.memPy x xs then xs else xs ++ [x]
def mkSet (xs : List Obj) : List Obj := xs.foldl setAdd []

end CattrsModel
