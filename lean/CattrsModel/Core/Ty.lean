import CattrsModel.Core.Py
/-!
# Types, class tables, converter configurations
-/
namespace CattrsModel

/-- homogeneous collection type constructors -/
inductive SK where
  | list | seq | mutseq | tupleHomo | deque | set | mutset | fset
  deriving DecidableEq, Repr, Inhabited

/-- mapping type constructors: `dict[K, V]`, `Mapping[K, V]`, `MutableMapping[K, V]` (all structured into a `dict`),
`OrderedDict[K, V]`, `defaultdict[K, V]` (its `default_factory` is `V`), `Counter[K]` (its value type is `int`) -/
inductive MK where
  | dict | mapping | mutmapping
  | ordered | defaultdict | counter
  deriving DecidableEq, Repr, Inhabited

/-- the `dict` subclass a mapping type is structured into by a `Converter` (`gen_structure_mapping`:
`structure_to = get_origin(cl)`, the abc spellings default to `dict`; `gen_structure_counter`;
`defaultdict_structure_factory`); `none`: a plain `dict` -/
def MK.target : MK → Option DK
  | .dict | .mapping | .mutmapping => Option.none
  | .ordered => some .ordered
  | .defaultdict => some .defaultdict
  | .counter => some .counter

/-- `structure_to(res)` -/
def mkMapObj (k : MK) (kvs : List (Obj × Obj)) : Obj :=
  match k.target with
  | Option.none => .dict kvs
  | some d => .mdict d kvs

/-- transparent wrappers -/
inductive WK where
  | newtype | annotated | final | alias
  deriving DecidableEq, Repr, Inhabited

inductive Ty where
  | any | int | float | str | bytes | bool
  | enum (e : Nat)
  | lit (vs : List Obj)
  | coll (k : SK) (t : Ty)
  | tupleHet (ts : List Ty)
  | map (k : MK) (kt vt : Ty)
  | opt (t : Ty)
  | wrap (k : WK) (t : Ty)
  | cls (c : Nat)
  | td (c : Nat)
  /-- `Union[K₁, …, Kₙ]` / `Union[K₁, …, Kₙ, None]` of attrs classes / dataclasses of the class table -/
  | union (cs : List Nat) (hasNone : Bool)
  /-- a `typing.NamedTuple` class of the class table (kind `namedtuple`): a heterogeneous tuple with named positions -/
  | nt (c : Nat)
  deriving Repr, Inhabited

inductive Dflt where
  | none
  | const (v : Obj)
  | factory (v : Obj)      -- a factory returning a fresh copy of `v`
  deriving Repr, Inhabited

def Dflt.value? : Dflt → Option Obj
  | .none => Option.none
  | .const v => some v
  | .factory v => some v

structure Field where
  name : String
  alias : String
  ty : Option Ty            -- `none`: no annotation
  dflt : Dflt
  init : Bool
  required : Bool           -- TypedDict: is the key required
  deriving Repr, Inhabited

inductive ClsKind where
  | attrs | dataclass | typeddict | namedtuple
  deriving DecidableEq, Repr, Inhabited

structure Cls where
  kind : ClsKind
  frozen : Bool
  fields : List Field
  deriving Repr, Inhabited

structure World where
  classes : List Cls
  enums : List (List Obj)       -- member values
  deriving Repr, Inhabited

def World.cls? (w : World) (c : Nat) : Option Cls := w.classes[c]?
def World.fields (w : World) (c : Nat) : List Field := match w.classes[c]? with | some k => k.fields | none => []
def World.frozen (w : World) (c : Nat) : Bool := match w.classes[c]? with | some k => k.frozen | none => false
/-- is class `c` a `typing.NamedTuple` class (`cattrs.cols.is_namedtuple`)? -/
def World.isNT (w : World) (c : Nat) : Bool :=
  match w.classes[c]? with | some k => k.kind == .namedtuple | none => false
/-- declared type of a field; an unannotated field behaves as `Any` -/
def Field.tyA (f : Field) : Ty := match f.ty with | some t => t | Option.none => .any
/-- `tuple(cl.__annotations__.values())`: the field types of a NamedTuple class, in declaration order -/
def World.ntTys (w : World) (c : Nat) : List Ty := (w.fields c).map Field.tyA
def World.ntNames (w : World) (c : Nat) : List String := (w.fields c).map (·.name)
/-- the items of a NamedTuple instance (`tuple(x)`) -/
def vals (fs : List (String × Obj)) : List Obj := fs.map (·.2)
/-- `cl(*ys)` for a NamedTuple class -/
def ntMk (w : World) (c : Nat) (ys : List Obj) : Obj := .inst c ((w.ntNames c).zip ys)

theorem sizeOf_vals_lt (fs : List (String × Obj)) : sizeOf (vals fs) < 1 + sizeOf fs := by
  induction fs with
  | nil => simp [vals]
  | cons p rest ih =>
    cases p with
    | mk k v =>
      simp only [vals, List.map_cons, List.cons.sizeOf_spec, Prod.mk.sizeOf_spec] at *
      omega

def World.members (w : World) (e : Nat) : List Obj := match w.enums[e]? with | some f => f | none => []

structure Cfg where
  gen : Bool            -- `Converter` (generated hooks) vs `BaseConverter` (interpretive)
  tupleStrat : Bool     -- `UnstructureStrategy.AS_TUPLE`
  detailed : Bool       -- `detailed_validation`
  forbid : Bool         -- `forbid_extra_keys` (Converter only)
  deriving Repr, Inhabited, DecidableEq

/-- run-time container class produced when structuring a collection type -/
def SK.structTo : SK → CK
  | .list | .seq | .mutseq => .list
  | .tupleHomo => .tuple
  | .deque => .deque
  | .set | .mutset => .set
  | .fset => .fset

/-- container class produced when a `Converter` unstructures a collection type -/
def SK.unstructTo : SK → CK
  | .list | .seq | .mutseq | .tupleHomo | .deque => .list
  | .set | .mutset => .set
  | .fset => .fset

def CK.isSet : CK → Bool
  | .set | .fset => true
  | _ => false

mutual
/-- Can the object be hashed (set element / dict key)? -/
def hashable (w : World) : Obj → Bool
  | .coll .tuple xs => hashableL w xs
  | .coll .fset _ => true
  | .coll _ _ => false
  | .dict _ => false
  | .mdict _ _ => false
  | .inst c fs => w.frozen c && hashableF w fs
  | _ => true
termination_by structural x => x
def hashableL (w : World) : List Obj → Bool
  | [] => true
  | x :: xs => hashable w x && hashableL w xs
termination_by structural x => x
def hashableF (w : World) : List (String × Obj) → Bool
  | [] => true
  | (_, x) :: xs => hashable w x && hashableF w xs
termination_by structural x => x
end

/-- `Enum(x)`: the member itself, or the first member whose value equals `x`. -/
def enumIdx (vals : List Obj) (x : Obj) : Option Nat :=
  match vals with
  | [] => Option.none
  | v :: rest => if Obj.pyEq v x then some 0 else (enumIdx rest x).map (· + 1)

def enumOf (w : World) (e : Nat) (x : Obj) : Option Obj :=
  match x with
  | .enumM e' m => if e' == e && m < (w.members e).length then some x else Option.none
  | _ => (enumIdx (w.members e) x).map (Obj.enumM e)

end CattrsModel
