import CattrsModel.Sexp
import CattrsModel.Conv.StructDetailed
/-!
# Wire format: protocol terms ↔ model values (driver only; no theorem depends on this file)
-/
namespace CattrsModel
open Sexp

partial def objOfSexp : Sexp → Option Obj
  | .atom "N" => some .none
  | .list [.atom "b", v] => (bool? v).map .bool
  | .list [.atom "i", v] => (atomInt? v).map .int
  | .list [.atom "f", v] => (atomInt? v).map .flt
  | .list [.atom "s", .str s] => some (.str s)
  | .list [.atom "y", .str s] => some (.bytes s)
  | .list [.atom "e", a, b] => do some (.enumM (← atomNat? a) (← atomNat? b))
  | .list (.atom "l" :: xs) => (xs.mapM objOfSexp).map (.coll .list)
  | .list (.atom "t" :: xs) => (xs.mapM objOfSexp).map (.coll .tuple)
  | .list (.atom "q" :: xs) => (xs.mapM objOfSexp).map (.coll .deque)
  | .list (.atom "S" :: xs) => (xs.mapM objOfSexp).map (.coll .set)
  | .list (.atom "F" :: xs) => (xs.mapM objOfSexp).map (.coll .fset)
  | .list (.atom "d" :: kvs) =>
      (kvs.mapM (fun (kv : Sexp) => match kv with
        | .list [k, v] => do some ((← objOfSexp k), (← objOfSexp v))
        | _ => Option.none)).map .dict
  | .list (.atom "D" :: .atom cl :: kvs) => do
      let d ← (match cl with
        | "od" => some DK.ordered | "dd" => some DK.defaultdict | "ctr" => some DK.counter | _ => Option.none)
      (kvs.mapM (fun (kv : Sexp) => match kv with
        | .list [k, v] => do some ((← objOfSexp k), (← objOfSexp v))
        | _ => Option.none)).map (.mdict d)
  | .list (.atom "I" :: c :: fs) => do
      let c ← atomNat? c
      let fs ← fs.mapM (fun (kv : Sexp) => match kv with
        | .list [.str n, v] => do some (n, (← objOfSexp v))
        | _ => Option.none)
      some (.inst c fs)
  | .list [.atom "o", n] => (atomNat? n).map .opaque
  | _ => Option.none

mutual
partial def sexpOfObj : Obj → Sexp
  | .none => .atom "N"
  | .bool b => .list [.atom "b", ofBool b]
  | .int i => .list [.atom "i", ofInt i]
  | .flt i => .list [.atom "f", ofInt i]
  | .str s => .list [.atom "s", .str s]
  | .bytes s => .list [.atom "y", .str s]
  | .enumM e m => .list [.atom "e", ofNat e, ofNat m]
  | .coll .list xs => .list (.atom "l" :: xs.map sexpOfObj)
  | .coll .tuple xs => .list (.atom "t" :: xs.map sexpOfObj)
  | .coll .deque xs => .list (.atom "q" :: xs.map sexpOfObj)
  | .coll .set xs => .list (.atom "S" :: sortedSexps xs)
  | .coll .fset xs => .list (.atom "F" :: sortedSexps xs)
  | .dict kvs => .list (.atom "d" :: kvs.map (fun (k, v) => .list [sexpOfObj k, sexpOfObj v]))
  | .mdict d kvs =>
      .list (.atom "D" :: .atom (match d with | .ordered => "od" | .defaultdict => "dd" | .counter => "ctr")
        :: kvs.map (fun (k, v) => .list [sexpOfObj k, sexpOfObj v]))
  | .inst c fs => .list (.atom "I" :: ofNat c :: fs.map (fun (n, v) => .list [.str n, sexpOfObj v]))
  | .opaque n => .list [.atom "o", ofNat n]
/-- sets are printed sorted by canonical text (both sides do the same) -/
partial def sortedSexps (xs : List Obj) : List Sexp :=
  let ss := xs.map (fun x => let s := sexpOfObj x; (s.toString, s))
  (ss.toArray.qsort (fun a b => a.1 < b.1)).toList.map (·.2)
end

partial def tyOfSexp : Sexp → Option Ty
  | .atom "any" => some .any
  | .atom "int" => some .int
  | .atom "float" => some .float
  | .atom "str" => some .str
  | .atom "bytes" => some .bytes
  | .atom "bool" => some .bool
  | .list [.atom "enum", k] => (atomNat? k).map .enum
  | .list (.atom "lit" :: vs) => (vs.mapM objOfSexp).map .lit
  | .list [.atom "list", t] => (tyOfSexp t).map (.coll .list)
  | .list [.atom "seq", t] => (tyOfSexp t).map (.coll .seq)
  | .list [.atom "mseq", t] => (tyOfSexp t).map (.coll .mutseq)
  | .list [.atom "tup*", t] => (tyOfSexp t).map (.coll .tupleHomo)
  | .list [.atom "deque", t] => (tyOfSexp t).map (.coll .deque)
  | .list [.atom "set", t] => (tyOfSexp t).map (.coll .set)
  | .list [.atom "mset", t] => (tyOfSexp t).map (.coll .mutset)
  | .list [.atom "fset", t] => (tyOfSexp t).map (.coll .fset)
  | .list (.atom "tup" :: ts) => (ts.mapM tyOfSexp).map .tupleHet
  | .list [.atom "dict", k, v] => do some (.map .dict (← tyOfSexp k) (← tyOfSexp v))
  | .list [.atom "map", k, v] => do some (.map .mapping (← tyOfSexp k) (← tyOfSexp v))
  | .list [.atom "mmap", k, v] => do some (.map .mutmapping (← tyOfSexp k) (← tyOfSexp v))
  | .list [.atom "odict", k, v] => do some (.map .ordered (← tyOfSexp k) (← tyOfSexp v))
  | .list [.atom "ddict", k, v] => do some (.map .defaultdict (← tyOfSexp k) (← tyOfSexp v))
  -- `Counter[K]`: `gen_structure_counter` fixes the value type to `int`
  | .list [.atom "counter", k] => do some (.map .counter (← tyOfSexp k) .int)
  | .list [.atom "opt", t] => (tyOfSexp t).map .opt
  | .list [.atom "new", t] => (tyOfSexp t).map (.wrap .newtype)
  | .list [.atom "ann", t] => (tyOfSexp t).map (.wrap .annotated)
  | .list [.atom "final", t] => (tyOfSexp t).map (.wrap .final)
  | .list [.atom "alias", t] => (tyOfSexp t).map (.wrap .alias)
  | .list [.atom "cls", k] => (atomNat? k).map .cls
  | .list [.atom "td", k] => (atomNat? k).map .td
  | .list [.atom "nt", k] => (atomNat? k).map .nt
  | .list (.atom "union" :: ks) => (ks.mapM atomNat?).map (fun cs => .union cs false)
  | .list (.atom "ounion" :: ks) => (ks.mapM atomNat?).map (fun cs => .union cs true)
  | _ => Option.none

def dfltOfSexp : Sexp → Option Dflt
  | .atom "-" => some .none
  | .list [.atom "c", v] => (objOfSexp v).map .const
  | .list [.atom "fac", v] => (objOfSexp v).map .factory
  | _ => Option.none

def fieldOfSexp : Sexp → Option Field
  | .list [.atom "fld", .str name, .str al, ty, d, ini, req] => do
      let ty ← (match ty with | .atom "-" => some Option.none | t => (tyOfSexp t).map some)
      some { name := name, alias := al, ty := ty, dflt := (← dfltOfSexp d), init := (← bool? ini), required := (← bool? req) }
  | _ => Option.none

def clsOfSexp : Sexp → Option Cls
  | .list (.atom "cls" :: .atom kind :: frozen :: flds) => do
      let kind ← (match kind with
        | "attrs" => some ClsKind.attrs | "dc" => some ClsKind.dataclass | "td" => some ClsKind.typeddict
        | "nt" => some ClsKind.namedtuple | _ => Option.none)
      some { kind := kind, frozen := (← bool? frozen), fields := (← flds.mapM fieldOfSexp) }
  | _ => Option.none

def worldOfSexp : Sexp → Option World
  | .list [.atom "world", .list (.atom "classes" :: cs), .list (.atom "enums" :: es)] => do
      let cs ← cs.mapM clsOfSexp
      let es ← es.mapM (fun (e : Sexp) => match e with | .list vs => vs.mapM objOfSexp | _ => Option.none)
      some { classes := cs, enums := es }
  | _ => Option.none

def cfgOfSexp : Sexp → Option Cfg
  | .list [.atom "cfg", g, t, d, f] => do
      some { gen := (← bool? g), tupleStrat := (← bool? t), detailed := (← bool? d), forbid := (← bool? f) }
  | _ => Option.none

partial def sexpOfErr : Err → Sexp
  | .leaf => .list [.atom "leaf"]
  | .extra ks => .list (.atom "extra" :: sortedSexps ks)
  | .cve es => .list (.atom "cve" :: es.map (fun (n, e) =>
      .list [match n with | some s => .str s | Option.none => .atom "-", sexpOfErr e]))
  | .ive es => .list (.atom "ive" :: es.map (fun (n, e) =>
      .list [match n with | some o => sexpOfObj o | Option.none => .atom "-", sexpOfErr e]))

end CattrsModel
