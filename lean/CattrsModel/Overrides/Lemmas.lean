import CattrsModel.Overrides.Model
/-!
# Lemmas about the override lattice

The override dict is observed only through `lookup`; every statement of `Converter.__init__` has a simple effect on
that view (`stepF`), so that the closure of an arbitrary (unbounded) dict is a fixed function of the 15 values
`lookup m k`.  The property theorems in `Props/C03b.lean` are derived from that.
-/
namespace CattrsModel.Overrides

abbrev View := CKey → Option Target

/-! ## `lookup` of the dict operations -/

theorem lookup_append (a b : Map) (k : CKey) : lookup (a ++ b) k = (lookup a k).or (lookup b k) := by
  induction a with
  | nil => simp [lookup]
  | cons x xs ih =>
    obtain ⟨k', t⟩ := x
    simp only [List.cons_append, lookup]
    split <;> simp [ih]

theorem lookup_insert (m : Map) (k : CKey) (t : Target) (k' : CKey) :
    lookup (insert m k t) k' = if k' = k then some t else lookup m k' := by
  induction m with
  | nil => simp only [insert, lookup]; split <;> rename_i h <;> split <;> simp_all
  | cons x xs ih =>
    obtain ⟨k0, t0⟩ := x
    simp only [insert]
    by_cases h : k0 = k
    · subst h
      simp only [if_true, lookup]
      by_cases h2 : k0 = k'
      · simp [h2]
      · have : ¬ k' = k0 := fun e => h2 e.symm
        simp [h2, this]
    · simp only [h, if_false, lookup, ih]
      by_cases h2 : k0 = k'
      · subst h2; simp [h]
      · simp [h2]

theorem lookup_fill (m : Map) (d : CKey) (t : Target) (k : CKey) :
    lookup (fill m d t) k = if k = d then (lookup m d).or (some t) else lookup m k := by
  unfold fill
  cases h : lookup m d with
  | some x => by_cases hk : k = d <;> simp [hk, h]
  | none =>
    simp only [lookup_append, lookup]
    by_cases hk : k = d
    · subst hk; simp [h]
    · have : ¬ d = k := fun e => hk e.symm
      simp [hk, this]

/-- the effect of one `if src in co:` block on the view -/
def stepF (g : View) (b : Block) : View :=
  fun k => if k ∈ b.dsts then (g k).or (g b.src) else g k

theorem lookup_foldl_fill (dsts : List CKey) (t : Target) (m : Map) (k : CKey) :
    lookup (dsts.foldl (fun m d => fill m d t) m) k
      = if k ∈ dsts then (lookup m k).or (some t) else lookup m k := by
  induction dsts generalizing m with
  | nil => simp
  | cons d ds ih =>
    simp only [List.foldl_cons, ih, lookup_fill, List.mem_cons]
    by_cases hk : k = d
    · subst hk
      cases h : lookup m k <;> simp
    · simp [hk]

theorem lookup_runBlock (m : Map) (b : Block) (k : CKey) :
    lookup (runBlock m b) k = stepF (lookup m) b k := by
  unfold runBlock stepF
  cases h : lookup m b.src with
  | none => simp
  | some t => simp [lookup_foldl_fill]

theorem lookup_runBlocks (bs : List Block) (m : Map) :
    lookup (runBlocks bs m) = bs.foldl stepF (lookup m) := by
  induction bs generalizing m with
  | nil => rfl
  | cons b bs ih =>
    simp only [runBlocks, List.foldl_cons] at ih ⊢
    rw [ih]
    congr 1
    funext k
    exact lookup_runBlock m b k

/-- the closure on views -/
def closureF (f : View) : View := blocks.foldl stepF f

theorem lookup_closure (m : Map) : lookup (closure m) = closureF (lookup m) :=
  lookup_runBlocks blocks m

/-- the rule on views -/
def specF (parent : CKey → Option CKey) (f : View) (k : CKey) : Option Target :=
  (chain parent 4 k).findSome? f

theorem specLookupWith_eq (parent : CKey → Option CKey) (m : Map) (k : CKey) :
    specLookupWith parent m k = specF parent (lookup m) k := rfl

/-! ## The closure computes the rule (on views: `f` is arbitrary, i.e. the dict is unbounded) -/

theorem closureF_spec (f : View) (k : CKey) : closureF f k = specF codeParent f k := by
  cases k <;>
    simp [closureF, blocks, stepF, specF, chain, codeParent, docParent, List.findSome?] <;>
    (repeat' split) <;> simp_all

theorem specF_doc_eq_code (f : View) (k : CKey) (h1 : k ≠ .orderedDict) (h2 : k ≠ .defaultDict) :
    specF docParent f k = specF codeParent f k := by
  cases k <;> simp_all [specF, chain, codeParent, docParent]

theorem closureF_self_of_some (f : View) (k : CKey) (t : Target) (h : f k = some t) : closureF f k = some t := by
  rw [closureF_spec]
  cases k <;> simp [specF, chain, codeParent, docParent, h]

/-- the closed view is closed under every statement -/
theorem closureF_closed (f : View) :
    ∀ b ∈ blocks, ∀ d ∈ b.dsts, closureF f b.src ≠ none → closureF f d ≠ none := by
  simp only [closureF_spec]
  simp [blocks, specF, chain, codeParent, docParent, List.findSome?]
  refine ⟨⟨?_, ?_⟩, ?_, ⟨?_, ?_⟩, ⟨?_, ?_⟩, ?_, ?_, ?_⟩ <;> (repeat' split) <;> simp_all

/-! ## Statements that find nothing to do leave the dict untouched -/

theorem foldl_fill_noop (dsts : List CKey) (t : Target) (m : Map)
    (h : ∀ d ∈ dsts, lookup m d ≠ none) : dsts.foldl (fun m d => fill m d t) m = m := by
  induction dsts with
  | nil => rfl
  | cons d ds ih =>
    have hd : lookup m d ≠ none := h d (by simp)
    have : fill m d t = m := by
      unfold fill
      cases hh : lookup m d with
      | some x => rfl
      | none => exact absurd hh hd
    simp only [List.foldl_cons, this]
    exact ih (fun d' hd' => h d' (by simp [hd']))

theorem runBlock_noop (m : Map) (b : Block)
    (h : ∀ d ∈ b.dsts, lookup m b.src ≠ none → lookup m d ≠ none) : runBlock m b = m := by
  unfold runBlock
  cases hs : lookup m b.src with
  | none => rfl
  | some t =>
    simp only
    exact foldl_fill_noop b.dsts t m (fun d hd => h d hd (by simp [hs]))

theorem runBlocks_noop (bs : List Block) (m : Map)
    (h : ∀ b ∈ bs, ∀ d ∈ b.dsts, lookup m b.src ≠ none → lookup m d ≠ none) : runBlocks bs m = m := by
  induction bs with
  | nil => rfl
  | cons b bs ih =>
    simp only [runBlocks, List.foldl_cons]
    rw [runBlock_noop m b (h b (by simp))]
    exact ih (fun b' hb' => h b' (by simp [hb']))

/-! ## The closure only appends -/

theorem fill_prefix (m : Map) (d : CKey) (t : Target) : m <+: fill m d t := by
  unfold fill
  split
  · exact List.prefix_refl m
  · exact List.prefix_append m _

theorem foldl_fill_prefix (dsts : List CKey) (t : Target) (m : Map) :
    m <+: dsts.foldl (fun m d => fill m d t) m := by
  induction dsts generalizing m with
  | nil => exact List.prefix_refl m
  | cons d ds ih => exact List.IsPrefix.trans (fill_prefix m d t) (ih (fill m d t))

theorem runBlock_prefix (m : Map) (b : Block) : m <+: runBlock m b := by
  unfold runBlock
  split
  · exact List.prefix_refl m
  · exact foldl_fill_prefix _ _ m

theorem runBlocks_prefix (bs : List Block) (m : Map) : m <+: runBlocks bs m := by
  induction bs generalizing m with
  | nil => exact List.prefix_refl m
  | cons b bs ih =>
    simp only [runBlocks, List.foldl_cons] at ih ⊢
    exact List.IsPrefix.trans (runBlock_prefix m b) (ih (runBlock m b))

end CattrsModel.Overrides
