import CattrsModel.Overrides.Lemmas
/-!
# Python-dict facts used by the order-independence and `copy()` theorems

`keysNodup` is the dict invariant (every key at most once).  `norm` (the dict comprehension) establishes it, the
closure statements preserve it, and on a list that has it `norm` is the identity.
-/
namespace CattrsModel.Overrides

def keys (m : Map) : List CKey := m.map Prod.fst

def keysNodup (m : Map) : Prop := (keys m).Nodup

theorem lookup_none_iff (m : Map) (k : CKey) : lookup m k = none ↔ k ∉ keys m := by
  induction m with
  | nil => simp [lookup, keys]
  | cons x xs ih =>
    obtain ⟨k0, t0⟩ := x
    simp only [lookup, keys, List.map_cons, List.mem_cons, not_or]
    by_cases h : k0 = k
    · subst h; simp
    · have : ¬ k = k0 := fun e => h e.symm
      simp only [h, if_false, this, not_false_eq_true, true_and]
      exact ih

theorem lookup_eq_some_iff_mem (m : Map) (hn : keysNodup m) (k : CKey) (t : Target) :
    lookup m k = some t ↔ (k, t) ∈ m := by
  induction m with
  | nil => simp [lookup]
  | cons x xs ih =>
    obtain ⟨k0, t0⟩ := x
    have hn' : keysNodup xs := (List.nodup_cons.mp hn).2
    have hk0 : k0 ∉ keys xs := (List.nodup_cons.mp hn).1
    simp only [lookup, List.mem_cons, Prod.mk.injEq]
    by_cases h : k0 = k
    · subst h
      simp only [if_true, Option.some.injEq]
      constructor
      · intro e; subst e; simp
      · rintro (h1 | hm)
        · simpa [eq_comm] using h1
        · exact absurd (List.mem_map_of_mem (f := Prod.fst) hm) hk0
    · have : ¬ k = k0 := fun e => h e.symm
      simp only [h, if_false, this, false_and, false_or]
      exact ih hn'

/-- a dict is determined, as a function, by its set of items -/
theorem lookup_perm {l1 l2 : Map} (h : l1.Perm l2) (hn : keysNodup l1) (k : CKey) : lookup l1 k = lookup l2 k := by
  have hn2 : keysNodup l2 := (List.Perm.nodup_iff (h.map Prod.fst)).mp hn
  apply Option.ext
  intro t
  rw [lookup_eq_some_iff_mem l1 hn, lookup_eq_some_iff_mem l2 hn2]
  exact h.mem_iff

theorem insert_of_absent (m : Map) (k : CKey) (t : Target) (h : k ∉ keys m) : insert m k t = m ++ [(k, t)] := by
  induction m with
  | nil => rfl
  | cons x xs ih =>
    obtain ⟨k0, t0⟩ := x
    simp only [keys, List.map_cons, List.mem_cons, not_or] at h
    have : ¬ k0 = k := fun e => h.1 e.symm
    simp only [insert, this, if_false, List.cons_append]
    rw [ih h.2]

theorem keys_insert (m : Map) (k : CKey) (t : Target) :
    keys (insert m k t) = if k ∈ keys m then keys m else keys m ++ [k] := by
  induction m with
  | nil => simp [insert, keys]
  | cons x xs ih =>
    obtain ⟨k0, t0⟩ := x
    by_cases h : k0 = k
    · subst h; simp [insert, keys]
    · have h' : ¬ k = k0 := fun e => h e.symm
      simp only [insert, h, if_false, keys, List.map_cons, List.mem_cons, h', false_or] at ih ⊢
      rw [ih]
      split <;> simp_all

theorem keysNodup_insert (m : Map) (k : CKey) (t : Target) (hn : keysNodup m) : keysNodup (insert m k t) := by
  unfold keysNodup at *
  rw [keys_insert]
  split
  · exact hn
  · rename_i h
    rw [List.nodup_append]
    refine ⟨hn, by simp, ?_⟩
    intro a ha b hb
    simp only [List.mem_singleton] at hb
    subst hb
    intro e; subst e; exact h ha

theorem keysNodup_foldl_insert (u : List (CKey × Target)) (acc : Map) (hn : keysNodup acc) :
    keysNodup (u.foldl (fun m e => insert m e.1 e.2) acc) := by
  induction u generalizing acc with
  | nil => exact hn
  | cons e es ih => exact ih _ (keysNodup_insert acc e.1 e.2 hn)

theorem keysNodup_norm (u : List (CKey × Target)) : keysNodup (norm u) :=
  keysNodup_foldl_insert u [] List.nodup_nil

theorem foldl_insert_of_nodup (u : List (CKey × Target)) (acc : Map) (hn : keysNodup (acc ++ u)) :
    u.foldl (fun m e => insert m e.1 e.2) acc = acc ++ u := by
  induction u generalizing acc with
  | nil => simp
  | cons e es ih =>
    obtain ⟨k, t⟩ := e
    have hk : k ∉ keys acc := by
      unfold keysNodup keys at hn
      rw [List.map_append, List.nodup_append] at hn
      intro hmem
      exact hn.2.2 k hmem k (by simp) rfl
    simp only [List.foldl_cons]
    rw [insert_of_absent acc k t hk, ih (acc ++ [(k, t)]) (by simpa using hn)]
    simp

/-- on a list without repeated keys the dict comprehension is the identity -/
theorem norm_of_nodup (m : Map) (hn : keysNodup m) : norm m = m := by
  have := foldl_insert_of_nodup m [] (by simpa using hn)
  simpa [norm] using this

theorem keysNodup_fill (m : Map) (d : CKey) (t : Target) (hn : keysNodup m) : keysNodup (fill m d t) := by
  unfold fill
  cases h : lookup m d with
  | some x => exact hn
  | none =>
    have hd : d ∉ keys m := (lookup_none_iff m d).mp h
    unfold keysNodup keys at *
    simp only [List.map_append, List.map_cons, List.map_nil]
    rw [List.nodup_append]
    refine ⟨hn, by simp, ?_⟩
    intro a ha b hb
    simp only [List.mem_singleton] at hb
    subst hb
    intro e; subst e; exact hd ha

theorem keysNodup_runBlock (m : Map) (b : Block) (hn : keysNodup m) : keysNodup (runBlock m b) := by
  unfold runBlock
  cases lookup m b.src with
  | none => exact hn
  | some t =>
    simp only
    generalize b.dsts = ds
    induction ds generalizing m with
    | nil => exact hn
    | cons d ds ih => exact ih _ (keysNodup_fill m d t hn)

theorem keysNodup_closure (m : Map) (hn : keysNodup m) : keysNodup (closure m) := by
  unfold closure runBlocks
  generalize blocks = bs
  induction bs generalizing m with
  | nil => exact hn
  | cons b bs ih => exact ih _ (keysNodup_runBlock m b hn)

end CattrsModel.Overrides
