import CattrsModel.Sexp
import CattrsModel.Overrides.Model
/-!
# Line-protocol operation of the override-lattice model (driver only)

`OVR ((<key> <target#>)…)` — the user's dict after `get_origin(k) or k` (entries in the user's order; a key may repeat
when the user gave two spellings of it).

reply `(res (closed (<key> <target#>)…) (copy (<key> <target#>)…) (cont (<decl> <target#>)…) (spec (<key> <target#>|-)…))`

* `closed`: `_unstruct_collection_overrides` after `__init__`, in insertion order;
* `copy`: the same of `converter.copy()`;
* `cont`: per declared collection type the container;
* `spec`: per key the answer of the DOCUMENTED rule (`specLookup`), for the check's three-way comparison.

`DFACT <Converter? 0|1> <tuple strategy? 0|1> <factory#>` — reply: the target id of the container of class nodes.

Target ids 0..4 are `list tuple set frozenset dict`; the harness numbers the user's callables from 10.
-/
namespace CattrsModel.Overrides
open CattrsModel Sexp

def allKeys : List CKey :=
  [.absSet, .mutSet, .set, .frozenset, .sequence, .mutSequence, .list, .tuple, .deque,
   .mapping, .mutMapping, .dict, .counter, .orderedDict, .defaultDict]

def keyName : CKey → String
  | .absSet => "absSet" | .mutSet => "mutSet" | .set => "set" | .frozenset => "frozenset"
  | .sequence => "sequence" | .mutSequence => "mutSequence" | .list => "list" | .tuple => "tuple" | .deque => "deque"
  | .mapping => "mapping" | .mutMapping => "mutMapping" | .dict => "dict" | .counter => "counter"
  | .orderedDict => "orderedDict" | .defaultDict => "defaultDict"

def keyOfName (s : String) : Option CKey := allKeys.find? (fun k => keyName k == s)

def allDecls : List DeclTy :=
  [.set, .mutSet, .absSet, .frozenset, .list, .sequence, .mutSequence, .homTuple, .hetTuple, .deque,
   .dict, .mapping, .mutMapping, .counter, .orderedDict, .defaultDict, .bareAbcSequence, .bareAbcSet, .bareAbcMutSet]

def declName : DeclTy → String
  | .set => "set" | .mutSet => "mutSet" | .absSet => "absSet" | .frozenset => "frozenset"
  | .list => "list" | .sequence => "sequence" | .mutSequence => "mutSequence" | .homTuple => "homTuple"
  | .hetTuple => "hetTuple" | .deque => "deque"
  | .dict => "dict" | .mapping => "mapping" | .mutMapping => "mutMapping" | .counter => "counter"
  | .orderedDict => "orderedDict" | .defaultDict => "defaultDict"
  | .bareAbcSequence => "bareAbcSequence" | .bareAbcSet => "bareAbcSet" | .bareAbcMutSet => "bareAbcMutSet"

def entryOfSexp : Sexp → Option (CKey × Target)
  | .list [.atom k, t] => do pure ((← keyOfName k), (← atomNat? t))
  | _ => none

def sexpOfMap (m : Map) : List Sexp := m.map (fun (k, t) => .list [.atom (keyName k), ofNat t])

def overridesHandle (op : String) (args : List Sexp) : Option Sexp :=
  match op, args with
  | "OVR", [.list es] => do
      let u ← es.mapM entryOfSexp
      let co := construct u
      pure (.list [.atom "res",
        .list (.atom "closed" :: sexpOfMap co),
        .list (.atom "copy" :: sexpOfMap (copyOf co)),
        .list (.atom "cont" :: allDecls.map (fun d => .list [.atom (declName d),
            ofNat (containerOf co d)])),
        .list (.atom "spec" :: allKeys.map (fun k => .list [.atom (keyName k),
            match specLookup (norm u) k with
            | some t => ofNat t
            | none => .atom "-"]))])
  | "DFACT", [g, t, f] => do
      pure (ofNat (classContainer (← bool? g) (← bool? t) (← atomNat? f)))
  | _, _ => none

end CattrsModel.Overrides
