/-!
# `unstruct_collection_overrides`: the override lattice of `Converter` (core Lean only)

Code modelled (read line by line): `/repo/src/cattrs/converters.py`

* `Converter.__init__` L1092-1137: `{get_origin(k) or k: v for k, v in user.items()}` (a dict comprehension: a later
  entry with the same normalised key replaces the value, the key keeps its first position), then the block of
  `if X in co and Y not in co: co[Y] = co[X]` statements, in the order in which they are written;
* the three consumers `gen_unstructure_iterable` / `gen_unstructure_hetero_tuple` / `gen_unstructure_mapping`
  (L1321-1354): `unstructure_to = self._unstruct_collection_overrides.get(get_origin(cl) or cl, unstructure_to or <default>)`;
* which declared types reach which consumer with which default: the predicate registrations L1147-1164 and the
  predicates `is_sequence`, `is_hetero_tuple`, `is_mutable_set`, `is_frozenset`, `is_mapping` of `_compat.py`;
* `Converter.copy()` L1386-1445 passes `self._unstruct_collection_overrides` (the already closed dict) to `__init__`.

Keys are the collection ABCs / classes the code mentions, plus `OrderedDict` and `defaultdict`, which the
documentation (docs/indepth.md, "Customizing Collection Unstructuring") lists in the mapping hierarchy but for which
the code has no statement.  Targets (the callables given by the user) are abstract `Nat` ids.
-/
namespace CattrsModel.Overrides

/-- normalised keys of the override dict (`get_origin(k) or k`) -/
inductive CKey where
  | absSet | mutSet | set | frozenset
  | sequence | mutSequence | list | tuple | deque
  | mapping | mutMapping | dict | counter
  | orderedDict | defaultDict
  deriving DecidableEq, Repr, Inhabited

abbrev Target := Nat

/-- a Python dict `type -> callable` in insertion order -/
abbrev Map := List (CKey × Target)

/-- `co.get(k)` -/
def lookup : Map → CKey → Option Target
  | [], _ => none
  | (k', t) :: rest, k => if k' = k then some t else lookup rest k

/-- `co[k] = t` (dict semantics: replace in place, else append) -/
def insert : Map → CKey → Target → Map
  | [], k, t => [(k, t)]
  | (k', t') :: rest, k, t => if k' = k then (k', t) :: rest else (k', t') :: insert rest k t

/-- the dict comprehension `{get_origin(k) or k: v for k, v in user.items()}`; the user's entries arrive already
normalised, several spellings of one key (`typing.Sequence`, `collections.abc.Sequence`, `Sequence[int]`) show up as
repeated keys -/
def norm (u : List (CKey × Target)) : Map :=
  u.foldl (fun m e => insert m e.1 e.2) []

/-- `if dst not in co: co[dst] = t` -/
def fill (m : Map) (dst : CKey) (t : Target) : Map :=
  match lookup m dst with
  | some _ => m
  | none => m ++ [(dst, t)]

/-- `if src in co:` followed by the nested `if dst not in co: co[dst] = co[src]` statements -/
structure Block where
  src : CKey
  dsts : List CKey
  deriving Repr

/-- one block; `co[src]` is read again by every nested statement — it is the value found by the guard, because the
nested statements only add keys that are absent -/
def runBlock (m : Map) (b : Block) : Map :=
  match lookup m b.src with
  | none => m
  | some t => b.dsts.foldl (fun m d => fill m d t) m

/-- the statements of `Converter.__init__`, in source order (L1101-1137) -/
def blocks : List Block :=
  [ ⟨.absSet, [.mutSet, .frozenset]⟩      -- L1102-1106
  , ⟨.mutSet, [.set]⟩                     -- L1109-1110
  , ⟨.sequence, [.mutSequence, .tuple]⟩   -- L1114-1118
  , ⟨.mutSequence, [.list, .deque]⟩       -- L1121-1125
  , ⟨.mapping, [.mutMapping]⟩             -- L1128-1129
  , ⟨.mutMapping, [.dict]⟩                -- L1132-1133
  , ⟨.dict, [.counter]⟩ ]                 -- L1136-1137

/-- run a statement list -/
def runBlocks (bs : List Block) (m : Map) : Map := bs.foldl runBlock m

/-- the post-processing of `Converter.__init__` -/
def closure (m : Map) : Map := runBlocks blocks m

/-- `Converter(unstruct_collection_overrides=u)._unstruct_collection_overrides` -/
def construct (u : List (CKey × Target)) : Map := closure (norm u)

/-- `Converter.copy()` without an `unstruct_collection_overrides` argument: the closed dict goes through `__init__` again -/
def copyOf (closed : Map) : Map := construct closed

/-! ## The documented rule, written declaratively -/

/-- The hierarchy of the documentation (docs/indepth.md): "`Sequence`, `MutableSequence`, `list`, `deque`, `tuple`",
"`Set`, `frozenset`, `MutableSet`, `set`", "`Mapping`, `MutableMapping`, `dict`, `defaultdict`, `OrderedDict`,
`Counter`"; "all `MutableSequence`s are `Sequence`s, all `list`s are `MutableSequence`s, all `tuple`s are `Sequence`s
… similar logic applies to the set and mapping hierarchies": the direct supertype of each key. -/
def docParent : CKey → Option CKey
  | .absSet => none
  | .mutSet => some .absSet
  | .frozenset => some .absSet
  | .set => some .mutSet
  | .sequence => none
  | .mutSequence => some .sequence
  | .tuple => some .sequence
  | .list => some .mutSequence
  | .deque => some .mutSequence
  | .mapping => none
  | .mutMapping => some .mapping
  | .dict => some .mutMapping
  | .counter => some .dict
  | .orderedDict => some .dict
  | .defaultDict => some .dict

/-- the hierarchy the comments in the code announce: as `docParent`, but `OrderedDict` / `defaultdict` stand alone -/
def codeParent : CKey → Option CKey
  | .orderedDict => none
  | .defaultDict => none
  | k => docParent k

/-- `k`, its supertype, the supertype of that, … (the hierarchies are at most 4 deep) -/
def chain (parent : CKey → Option CKey) : Nat → CKey → List CKey
  | 0, k => [k]
  | n + 1, k => k :: (match parent k with
                      | none => []
                      | some p => chain parent n p)

/-- the rule: the override that applies to `k` is the user's entry for the most specific of `k` and its supertypes
that has one -/
def specLookupWith (parent : CKey → Option CKey) (m : Map) (k : CKey) : Option Target :=
  (chain parent 4 k).findSome? (lookup m)

/-- the documented rule -/
def specLookup (m : Map) (k : CKey) : Option Target := specLookupWith docParent m k

/-- the rule with the hierarchy of the code comments -/
def specLookupCode (m : Map) (k : CKey) : Option Target := specLookupWith codeParent m k

/-! ## Consumers: which declared type looks up which key, with which default -/

/-- declared collection types as they reach the unstructure dispatch -/
inductive DeclTy where
  | set | mutSet | absSet | frozenset
  | list | sequence | mutSequence | homTuple | hetTuple | deque
  | dict | mapping | mutMapping | counter | orderedDict | defaultDict
  /-- unparametrised `collections.abc.Sequence` / `Set` / `MutableSet`: listed in `is_sequence` / `is_mutable_set`
  beside the `typing` spellings (since the repair of F45; before it they matched no predicate and the value was
  returned unchanged) -/
  | bareAbcSequence | bareAbcSet | bareAbcMutSet
  deriving DecidableEq, Repr, Inhabited

/-- built-in targets -/
def tList : Target := 0
def tTuple : Target := 1
def tSet : Target := 2
def tFrozenset : Target := 3
def tDict : Target := 4

/-- `(get_origin(cl) or cl, unstructure_to or <default>)` of the consumer the declared type reaches -/
def consumer : DeclTy → CKey × Target
  | .set => (.set, tSet)                 -- is_mutable_set → gen_unstructure_iterable(cl, unstructure_to=set)
  | .mutSet => (.mutSet, tSet)
  | .absSet => (.absSet, tSet)           -- origin AbcSet is in is_mutable_set's tuple
  | .frozenset => (.frozenset, tFrozenset)
  | .list => (.list, tList)              -- is_sequence → gen_unstructure_iterable(cl) (default list)
  | .sequence => (.sequence, tList)
  | .mutSequence => (.mutSequence, tList)
  | .homTuple => (.tuple, tList)         -- tuple[T, ...] is a sequence
  | .hetTuple => (.tuple, tTuple)        -- is_hetero_tuple → gen_unstructure_hetero_tuple (default tuple)
  | .deque => (.deque, tList)
  | .dict => (.dict, tDict)              -- is_mapping → gen_unstructure_mapping (default dict)
  | .mapping => (.mapping, tDict)
  | .mutMapping => (.mutMapping, tDict)
  | .counter => (.counter, tDict)
  | .orderedDict => (.orderedDict, tDict)
  | .defaultDict => (.defaultDict, tDict)
  | .bareAbcSequence => (.sequence, tList)   -- `get_origin(cl) or cl` = the class itself
  | .bareAbcSet => (.absSet, tSet)
  | .bareAbcMutSet => (.mutSet, tSet)

/-- the container a value of declared type `d` is unstructured into by a converter whose (closed) override dict is
`co`: `co.get(origin, default)` -/
def containerOf (co : Map) (d : DeclTy) : Target :=
  (lookup co (consumer d).1).getD (consumer d).2

/-- for a converter built from the user's map -/
def containerFor (m : Map) (d : DeclTy) : Target := containerOf (closure m) d

/-! ## `dict_factory` -/

/-- The container of a class node of the output.  `BaseConverter.unstructure_attrs_asdict` (L598-607) starts from
`self._dict_factory()`; the hook `Converter` generates for the dict strategy (`make_dict_unstructure_fn`) builds a dict
display and never consults `_dict_factory`; under the tuple strategy both classes build a tuple. -/
def classContainer (gen tupleStrat : Bool) (factory : Target) : Target :=
  if tupleStrat then tTuple else if gen then tDict else factory

end CattrsModel.Overrides
