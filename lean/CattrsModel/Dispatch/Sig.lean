import CattrsModel.Dispatch.Model
/-!
# Signature shapes of hook factories (C07: "Factories receive T (and the converter when they ask for it)")

`register_*_hook_factory(pred, factory)` decides from `inspect.signature(factory)` whether the factory is registered
as a plain factory (`is_generator=True`: called `factory(T)`) or as an *extended* one (`"extended"`: called
`factory(T, converter)`), `converters.py` `_is_extended_factory` L162-171:

    sig = inspect_signature(factory)
    return len(sig.parameters) >= 2 and (list(sig.parameters.values())[1]).default is Signature.empty

A signature is the list of its parameters in `inspect` order (what is already bound — `self` of a bound method, the
positional / keyword arguments of a `functools.partial` — is removed or defaulted by `inspect` itself), each with its
kind and whether it has a default.  `isExtended` transcribes the code; `asksConverter` is the documented rule
("The hook factory may expose an additional required parameter.  In this case, the current converter will be
provided to the hook factory as that parameter."): a second parameter that can be filled positionally and has no
default.  `acceptsPos s n` says whether a Python call with `n` positional arguments and no keywords binds.
No Mathlib.
-/
namespace CattrsModel.Dispatch.Sig
open CattrsModel.Dispatch

/-- `inspect.Parameter.kind` -/
inductive PKind where
  | posOnly | posOrKw | varPos | kwOnly | varKw
  deriving Repr, DecidableEq, Inhabited

/-- can be filled by a positional argument of its own -/
def PKind.positional : PKind → Bool
  | .posOnly => true
  | .posOrKw => true
  | _ => false

structure Param where
  kind : PKind
  /-- `p.default is not Signature.empty` (always false for `*args` / `**kwargs`) -/
  hasDefault : Bool
  deriving Repr, DecidableEq, Inhabited

abbrev Sig := List Param

/-- `_is_extended_factory` (the code): at least two parameters and the second one has no default — whatever its
kind -/
def isExtended : Sig → Bool
  | _ :: p :: _ => !p.hasDefault
  | _ => false

/-- the documented rule: the factory exposes an additional *required* parameter (a second positional parameter
without a default) -/
def asksConverter : Sig → Bool
  | _ :: p :: _ => p.kind.positional && !p.hasDefault
  | _ => false

/-- the `Kind` under which `register_*_hook_factory` files the factory -/
def kindOf (s : Sig) : Kind := if isExtended s then .extended else .factory

/-- number of positional arguments of the call cattrs makes / of the call the documentation promises -/
def implArity (s : Sig) : Nat := if isExtended s then 2 else 1
def docArity (s : Sig) : Nat := if asksConverter s then 2 else 1

/-- does a call with `n` positional arguments and no keyword arguments bind? (`inspect.Signature.bind`) -/
def acceptsPos : Sig → Nat → Bool
  | [], n => n == 0
  | p :: rest, n =>
    match p.kind with
    | .posOnly | .posOrKw =>
      match n with
      | 0 => p.hasDefault && acceptsPos rest 0
      | m+1 => acceptsPos rest m
    | .varPos => acceptsPos rest 0
    | .kwOnly => p.hasDefault && acceptsPos rest n
    | .varKw => acceptsPos rest n

/-- the second parameter (if any) is an ordinary positional one, or a keyword-only one with a default: the shapes
on which code and documentation agree.  Its complement — second parameter `*args`, `**kwargs`, or a required
keyword-only parameter — is recorded finding F61. -/
def regular : Sig → Bool
  | _ :: p :: _ => p.kind.positional || (p.kind == .kwOnly && p.hasDefault)
  | _ => true

theorem isExtended_eq_asks (s : Sig) (h : regular s = true) : isExtended s = asksConverter s := by
  match s with
  | [] => rfl
  | [_] => rfl
  | _ :: p :: _ =>
    cases p with
    | mk k d => cases k <;> cases d <;> simp_all [regular, isExtended, asksConverter, PKind.positional]

/-- on every shape the code never under-classifies: a factory that asks for the converter is registered as extended -/
theorem asks_imp_extended (s : Sig) (h : asksConverter s = true) : isExtended s = true := by
  match s with
  | [] => simp [asksConverter] at h
  | [_] => simp [asksConverter] at h
  | _ :: p :: _ =>
    simp only [asksConverter, Bool.and_eq_true] at h
    simpa [isExtended] using h.2

/-- the call cattrs makes binds whenever the documented call binds — unless the second parameter is `**kwargs` -/
theorem impl_call_binds (s : Sig) (hdoc : acceptsPos s (docArity s) = true)
    (hkw : ∀ p q rest, s = p :: q :: rest → q.kind ≠ .varKw) : acceptsPos s (implArity s) = true := by
  match s with
  | [] => simpa [implArity, docArity, isExtended, asksConverter] using hdoc
  | [p] => simpa [implArity, docArity, isExtended, asksConverter] using hdoc
  | p :: q :: rest =>
    have hq := hkw p q rest rfl
    cases p with
    | mk pk pd =>
    cases q with
    | mk qk qd =>
      cases qk <;> cases qd <;> cases pk <;> cases pd <;>
        simp_all [implArity, docArity, isExtended, asksConverter, acceptsPos, PKind.positional]

end CattrsModel.Dispatch.Sig
