import CattrsModel.Dispatch.Model
/-!
# Dispatch lemmas I: the cache-free lookup, the cache invariant, every operation preserves it
-/
namespace CattrsModel.Dispatch

/-! ## association lists -/

theorem alookup_append (a b : List (TyKey × Hook)) (t : TyKey) :
    alookup (a ++ b) t = (alookup a t).or (alookup b t) := by
  induction a with
  | nil => simp [alookup]
  | cons p a ih =>
    obtain ⟨k, h⟩ := p
    simp only [List.cons_append, alookup]
    split
    · simp
    · exact ih

theorem alookup_mem {m : List (TyKey × Hook)} {t : TyKey} {h : Hook} (hl : alookup m t = some h) : (t, h) ∈ m := by
  induction m with
  | nil => simp [alookup] at hl
  | cons p m ih =>
    obtain ⟨k, h'⟩ := p
    simp only [alookup] at hl
    split at hl
    · next hk => cases hl; subst hk; exact List.mem_cons_self
    · exact List.mem_cons_of_mem _ (ih hl)

/-! ## the cache-free lookup does not depend on the fuel -/

theorem sub_rank (F : Facts) {t c : TyKey} (h : c ∈ F.sub t) : F.rank c < F.rank t := by
  simp [Facts.sub] at h
  exact h.2

theorem sub_eq_comps (F : Facts) (hF : F.WF) (t : TyKey) : F.sub t = F.comps t := by
  unfold Facts.sub
  rw [List.filter_eq_self]
  intro c hc
  simpa using hF t c hc

theorem sub_nil_of_rank_zero (F : Facts) {t : TyKey} (h : F.rank t = 0) : F.sub t = [] := by
  cases hs : F.sub t with
  | nil => rfl
  | cons c cs =>
    have : c ∈ F.sub t := by rw [hs]; exact List.mem_cons_self
    have := sub_rank F this
    omega

theorem resolveN_fuel (F : Facts) (r : Regs) : ∀ (n m : Nat) (t : TyKey), F.rank t ≤ n → F.rank t ≤ m →
    resolveN F r n t = resolveN F r m t := by
  intro n
  induction n with
  | zero =>
    intro m t hn _
    have h0 : F.rank t = 0 := by omega
    cases m with
    | zero => rfl
    | succ m => simp [resolveN, sub_nil_of_rank_zero F h0]
  | succ n ih =>
    intro m t hn hm
    cases m with
    | zero =>
      have h0 : F.rank t = 0 := by omega
      simp [resolveN, sub_nil_of_rank_zero F h0]
    | succ m =>
      simp only [resolveN]
      congr 1
      apply List.map_congr_left
      intro c hc
      have := sub_rank F hc
      exact ih m c (by omega) (by omega)

theorem resolveN_eq_resolve (F : Facts) (r : Regs) (n : Nat) (t : TyKey) (h : F.rank t ≤ n) :
    resolveN F r n t = resolve F r t :=
  resolveN_fuel F r n (F.rank t) t h (Nat.le_refl _)

/-- the defining equation of the cache-free lookup -/
theorem resolve_unfold (F : Facts) (r : Regs) (t : TyKey) :
    resolve F r t = choose F r t ((F.sub t).map (resolve F r)) := by
  unfold resolve
  cases hr : F.rank t with
  | zero => simp [resolveN, sub_nil_of_rank_zero F hr]
  | succ k =>
    simp only [resolveN]
    congr 1
    apply List.map_congr_left
    intro c hc
    have := sub_rank F hc
    exact resolveN_fuel F r k (F.rank c) c (by omega) (Nat.le_refl _)

/-! ## the cache invariant -/

/-- every entry of the `lru_cache` and of the direct table is what the cache-free lookup gives for the current
registrations -/
def CacheOK (F : Facts) (s : St) : Prop :=
  (∀ t h, (t, h) ∈ s.lru → h = resolve F s.regs t) ∧ (∀ t h, (t, h) ∈ s.direct → h = resolve F s.regs t)

theorem cacheOK_empty (F : Facts) (r : Regs) : CacheOK F { regs := r, lru := [], direct := [] } := by
  constructor <;> intro t h hm <;> simp at hm

/-- generic: threading a state through a list with a step that keeps registrations and invariant and returns a
pure function of the element -/
theorem mapSt_spec {α : Type} (F : Facts) (f : St → α → St × Hook) (g : α → Hook) (r0 : Regs) (as : List α)
    (hf : ∀ s a, a ∈ as → s.regs = r0 → CacheOK F s →
      (f s a).1.regs = r0 ∧ CacheOK F (f s a).1 ∧ (f s a).2 = g a) :
    ∀ s, s.regs = r0 → CacheOK F s →
      (mapSt f s as).1.regs = r0 ∧ CacheOK F (mapSt f s as).1 ∧ (mapSt f s as).2 = as.map g := by
  induction as with
  | nil => intro s hr hc; simp [mapSt, hr, hc]
  | cons a as ih =>
    intro s hr hc
    obtain ⟨h1, h2, h3⟩ := hf s a List.mem_cons_self hr hc
    have ih' := ih (fun s b hb => hf s b (List.mem_cons_of_mem _ hb)) (f s a).1 h1 h2
    simp only [mapSt, List.map_cons]
    exact ⟨ih'.1, ih'.2.1, by rw [h3, ih'.2.2]⟩

/-- what a correct dispatcher does on type `t` from state `s` -/
structure Good (F : Facts) (s : St) (out : St × Hook) (t : TyKey) : Prop where
  regs : out.1.regs = s.regs
  ok : CacheOK F out.1
  val : out.2 = resolve F s.regs t

theorem cachedBy_good (F : Facts) (f : St → TyKey → St × Hook) (s : St) (t : TyKey) (hs : CacheOK F s)
    (hf : Good F s (f s t) t) : Good F s (cachedBy f s t) t := by
  unfold cachedBy
  split
  · next h hl => exact ⟨rfl, hs, hs.1 t h (alookup_mem hl)⟩
  · refine ⟨hf.regs, ⟨?_, ?_⟩, hf.val⟩
    · intro t' h' hm
      simp only [List.mem_cons, Prod.mk.injEq] at hm
      rcases hm with ⟨rfl, rfl⟩ | hm
      · simp only; rw [hf.regs]; exact hf.val
      · simp only; exact hf.ok.1 t' h' hm
    · intro t' h' hm
      exact hf.ok.2 t' h' hm

theorem entryHook_nonfactory (r : Regs) (e : Entry) (t : TyKey) (subs subs' : List Hook)
    (h : e.kind.isFactory = false) : entryHook r e t subs = entryHook r e t subs' := by
  unfold entryHook
  cases hk : e.kind <;> simp [hk, Kind.isFactory] at h ⊢

theorem entryHook_regs (r r' : Regs) (e : Entry) (t : TyKey) (subs : List Hook)
    (h1 : r'.unionReg = r.unionReg) (h2 : r'.fb = r.fb) : entryHook r' e t subs = entryHook r e t subs := by
  unfold entryHook
  rw [h1, h2]

theorem entryHook_nosubs (r : Regs) (e : Entry) (t : TyKey) (subs : List Hook)
    (h : e.sub = .none) : entryHook r e t [] = entryHook r e t subs := by
  unfold entryHook Entry.wantsSubs
  cases hk : e.kind <;> simp [h]

theorem dispCore_good (F : Facts) (subC subNC : St → TyKey → St × Hook) (s : St) (t : TyKey) (hs : CacheOK F s)
    (hC : ∀ s' c, c ∈ F.sub t → CacheOK F s' → Good F s' (subC s' c) c)
    (hNC : ∀ s' c, c ∈ F.sub t → CacheOK F s' → Good F s' (subNC s' c) c) :
    Good F s (dispCore F subC subNC s t) t := by
  have hu := resolve_unfold F s.regs t
  unfold choose at hu
  unfold dispCore
  cases hc : classTier F s.regs t with
  | some h => simp only; rw [hc] at hu; exact ⟨rfl, hs, hu.symm⟩
  | none =>
    simp only
    rw [hc] at hu
    simp only at hu
    cases hd : alookup s.direct t with
    | some h => exact ⟨rfl, hs, hs.2 t h (alookup_mem hd)⟩
    | none =>
      simp only
      cases he : firstEntry F s.regs t with
      | none => simp only; rw [he] at hu; exact ⟨rfl, hs, hu.symm⟩
      | some e =>
        simp only
        rw [he] at hu
        simp only at hu
        cases hfac : e.kind.isFactory with
        | false =>
          simp only [Bool.false_eq_true, if_false]
          exact ⟨rfl, hs, by rw [hu]; exact entryHook_nonfactory _ _ _ _ _ hfac⟩
        | true =>
          simp only [if_true]
          -- the nested dispatches
          have key : ∃ r : St × List Hook,
              subHooks F subC subNC s e t = r ∧
              r.1.regs = s.regs ∧ CacheOK F r.1 ∧ entryHook s.regs e t r.2 = resolve F s.regs t := by
            unfold subHooks
            cases hsub : e.sub with
            | none =>
              exact ⟨(s, []), rfl, rfl, hs, by rw [hu]; exact entryHook_nosubs _ _ _ _ hsub⟩
            | cached =>
              have := mapSt_spec F subC (resolve F s.regs) s.regs (F.sub t)
                (fun s' c hc hr hok => by
                  have g := hC s' c hc hok
                  exact ⟨by rw [g.regs, hr], g.ok, by rw [g.val, hr]⟩) s rfl hs
              exact ⟨_, rfl, this.1, this.2.1, by rw [this.2.2, hu]⟩
            | uncached =>
              have := mapSt_spec F subNC (resolve F s.regs) s.regs (F.sub t)
                (fun s' c hc hr hok => by
                  have g := hNC s' c hc hok
                  exact ⟨by rw [g.regs, hr], g.ok, by rw [g.val, hr]⟩) s rfl hs
              exact ⟨_, rfl, this.1, this.2.1, by rw [this.2.2, hu]⟩
          obtain ⟨r, hr, hregs, hok, hval⟩ := key
          rw [hr]
          have hval' : entryHook r.1.regs e t r.2 = resolve F s.regs t := by
            rw [hregs]; exact hval
          cases hdir : e.direct with
          | false =>
            simp only [Bool.false_eq_true, if_false]
            exact ⟨hregs, hok, hval'⟩
          | true =>
            simp only [if_true]
            refine ⟨hregs, ⟨?_, ?_⟩, hval'⟩
            · intro t' h' hm; simp [registerDirect] at hm
            · intro t' h' hm
              simp only [registerDirect, List.mem_cons, Prod.mk.injEq] at hm
              rcases hm with ⟨rfl, rfl⟩ | hm
              · simp only [registerDirect]; rw [hregs]; exact hval
              · exact hok.2 t' h' hm

theorem dispNC_good (F : Facts) : ∀ (n : Nat) (s : St) (t : TyKey), CacheOK F s → F.rank t ≤ n →
    Good F s (dispNC F n s t) t := by
  intro n
  induction n with
  | zero =>
    intro s t hs hr
    have h0 : F.sub t = [] := sub_nil_of_rank_zero F (by omega)
    unfold dispNC
    apply dispCore_good F _ _ s t hs <;> intro s' c hc <;> simp [h0] at hc
  | succ n ih =>
    intro s t hs hr
    unfold dispNC
    apply dispCore_good F _ _ s t hs
    · intro s' c hc hok
      have := sub_rank F hc
      exact cachedBy_good F _ s' c hok (ih s' c hok (by omega))
    · intro s' c hc hok
      have := sub_rank F hc
      exact ih s' c hok (by omega)

theorem dispatch_good (F : Facts) (s : St) (t : TyKey) (hs : CacheOK F s) : Good F s (dispatch F s t) t :=
  cachedBy_good F _ s t hs (dispNC_good F _ s t hs (Nat.le_refl _))

theorem dispatchUncached_good (F : Facts) (s : St) (t : TyKey) (hs : CacheOK F s) :
    Good F s (dispatchUncached F s t) t :=
  dispNC_good F _ s t hs (Nat.le_refl _)

/-! ## calls -/

theorem behaveN_fuel (F : Facts) (res : TyKey → Hook) : ∀ (n m : Nat) (h : Hook) (t : TyKey),
    F.rank t ≤ n → F.rank t ≤ m → behaveN F res n h t = behaveN F res m h t := by
  intro n
  induction n with
  | zero =>
    intro m h t hn _
    have h0 : F.sub t = [] := sub_nil_of_rank_zero F (by omega)
    cases m with
    | zero => rfl
    | succ m => cases h <;> simp [behaveN, behaveCore, h0]
  | succ n ih =>
    intro m h t hn hm
    cases m with
    | zero =>
      have h0 : F.sub t = [] := sub_nil_of_rank_zero F (by omega)
      cases h <;> simp [behaveN, behaveCore, h0]
    | succ m =>
      cases h with
      | builtin b =>
        simp only [behaveN, behaveCore]
        split
        · congr 1
          apply List.map_congr_left
          intro c hc
          have := sub_rank F hc
          exact ih m _ c (by omega) (by omega)
        · rfl
      | made f ty wc subs =>
        simp only [behaveN, behaveCore]
        congr 1
        apply List.map_congr_left
        intro p hp
        have := sub_rank F (List.of_mem_zip hp).2
        exact ih m _ _ (by omega) (by omega)
      | user _ => rfl
      | fallback _ _ => rfl

/-- the defining equation of the call tree -/
theorem behaveWith_unfold (F : Facts) (res : TyKey → Hook) (h : Hook) (t : TyKey) :
    behaveWith F res h t = behaveCore F res (behaveWith F res) h t := by
  unfold behaveWith
  cases hr : F.rank t with
  | zero =>
    have h0 : F.sub t = [] := sub_nil_of_rank_zero F hr
    cases h <;> simp [behaveN, behaveCore, h0]
  | succ k =>
    cases h with
    | builtin b =>
      simp only [behaveN, behaveCore]
      split
      · congr 1
        apply List.map_congr_left
        intro c hc
        have := sub_rank F hc
        exact behaveN_fuel F res k _ _ c (by omega) (Nat.le_refl _)
      · rfl
    | made f ty wc subs =>
      simp only [behaveN, behaveCore]
      congr 1
      apply List.map_congr_left
      intro p hp
      have := sub_rank F (List.of_mem_zip hp).2
      exact behaveN_fuel F res k _ _ _ (by omega) (Nat.le_refl _)
    | user _ => rfl
    | fallback _ _ => rfl

theorem behave_unfold (F : Facts) (r : Regs) (h : Hook) (t : TyKey) :
    behave F r h t = behaveCore F (resolve F r) (behave F r) h t :=
  behaveWith_unfold F (resolve F r) h t

/-- what a correct call of hook `h` for type `t` does -/
structure GoodCall (F : Facts) (s : St) (out : St × Hook) (h : Hook) (t : TyKey) : Prop where
  regs : out.1.regs = s.regs
  ok : CacheOK F out.1
  val : out.2 = behave F s.regs h t

theorem callCore_good (F : Facts) (disp : St → TyKey → St × Hook) (rec : St → Hook → TyKey → St × Hook)
    (s : St) (h : Hook) (t : TyKey) (hs : CacheOK F s)
    (hD : ∀ s' c, c ∈ F.sub t → CacheOK F s' → Good F s' (disp s' c) c)
    (hR : ∀ s' h' c, c ∈ F.sub t → CacheOK F s' → GoodCall F s' (rec s' h' c) h' c) :
    GoodCall F s (callCore F disp rec s h t) h t := by
  have hu := behave_unfold F s.regs h t
  unfold behaveCore at hu
  unfold callCore
  cases h with
  | user tag => exact ⟨rfl, hs, hu.symm⟩
  | fallback f ty => exact ⟨rfl, hs, hu.symm⟩
  | builtin b =>
    simp only at hu ⊢
    cases hl : F.late b with
    | false => simp only [Bool.false_eq_true, if_false]; rw [hl] at hu; exact ⟨rfl, hs, hu.symm⟩
    | true =>
      simp only [if_true]
      rw [hl] at hu
      simp only [if_true] at hu
      have := mapSt_spec F (fun s c => rec (disp s c).1 (disp s c).2 c)
        (fun c => behave F s.regs (resolve F s.regs c) c) s.regs (F.sub t)
        (fun s' c hc hr hok => by
          have d := hD s' c hc hok
          have g := hR (disp s' c).1 (disp s' c).2 c hc d.ok
          refine ⟨by rw [g.regs, d.regs, hr], g.ok, ?_⟩
          rw [g.val, d.regs, d.val, hr]) s rfl hs
      exact ⟨this.1, this.2.1, by rw [hu, this.2.2]⟩
  | made f ty wc subs =>
    simp only at hu ⊢
    have := mapSt_spec F (fun s (p : Hook × TyKey) => rec s p.1 p.2)
      (fun p => behave F s.regs p.1 p.2) s.regs (subs.zip (F.sub t))
      (fun s' p hp hr hok => by
        have g := hR s' p.1 p.2 (List.of_mem_zip hp).2 hok
        exact ⟨by rw [g.regs, hr], g.ok, by rw [g.val, hr]⟩) s rfl hs
    exact ⟨this.1, this.2.1, by rw [hu, this.2.2]⟩

theorem callN_good (F : Facts) : ∀ (n : Nat) (s : St) (h : Hook) (t : TyKey), CacheOK F s → F.rank t ≤ n →
    GoodCall F s (callN F n s h t) h t := by
  intro n
  induction n with
  | zero =>
    intro s h t hs hr
    have h0 : F.sub t = [] := sub_nil_of_rank_zero F (by omega)
    unfold callN
    apply callCore_good F _ _ s h t hs
    · intro s' c hc; simp [h0] at hc
    · intro s' h' c hc; simp [h0] at hc
  | succ n ih =>
    intro s h t hs hr
    unfold callN
    apply callCore_good F _ _ s h t hs
    · intro s' c hc hok
      have := sub_rank F hc
      exact cachedBy_good F _ s' c hok (dispNC_good F n s' c hok (by omega))
    · intro s' h' c hc hok
      have := sub_rank F hc
      exact ih s' h' c hok (by omega)

/-- `structure` / `unstructure`: registrations untouched, invariant kept, result = call tree of the cache-free lookup -/
theorem call_good (F : Facts) (s : St) (t : TyKey) (hs : CacheOK F s) :
    (call F s t).1.regs = s.regs ∧ CacheOK F (call F s t).1 ∧
      (call F s t).2 = behave F s.regs (resolve F s.regs t) t := by
  have d := dispatch_good F s t hs
  have g := callN_good F (F.rank t) (dispatch F s t).1 (dispatch F s t).2 t d.ok (Nat.le_refl _)
  unfold call
  exact ⟨by rw [g.regs, d.regs], g.ok, by rw [g.val, d.regs, d.val]⟩

end CattrsModel.Dispatch
