import CattrsModel.Sexp
import CattrsModel.Dispatch.Model
import CattrsModel.Dispatch.StoreHist
import CattrsModel.Dispatch.Locs
import CattrsModel.Dispatch.Sig
/-!
# Line-protocol operations of the dispatch model (driver only; no theorem depends on this file)

`RUNHIST <facts> (<cfg>…) (<sop>…)`  → `(ok <reply>…)`, one reply per `<sop>`
`SPEC <facts> <cfg> (<op>…) (<type key>…)` → `(ok <hook>…)`, `spec F cfg ops t` for every listed key
`SPECSTORE <facts> (<cfg>…) (<sop>…) ((<converter index> <type key>…)…)` → `(ok (<hook>…)…)`: for every listed converter of
  the store history, `spec F o.cfg o.hist t` with `o` = its entry in `origins cfgs sops` (the right-hand side of theorem
  C07_precedence_store: the documented rule applied to the converter's OWN construction and history, copies included)
`LOCS <facts> (<cfg>…) (<sop>…)` → `(ok (<single> <preds> <union> <direct> <lru>)… )`: the same store history on the
  identity layer (`Locs.hrun` from `HStore.fresh`); for every converter of the final store the locations of its class
  registry, predicate list, union registry, direct table and lru cache (theorem C18_no_shared_locations: no two
  converters have one in common)

`SIGKIND (<param>…)` → `(ok <extended|factory> <asks 0|1> <regular 0|1> <doc call binds 0|1> <cattrs' call binds 0|1>)`:
  the `Kind` under which `register_*_hook_factory` files a factory whose `inspect.signature` has these parameters
  (`Sig.kindOf`, transcription of `_is_extended_factory`), the documented rule (`Sig.asksConverter`), and whether the
  two calls bind; `<param>` = `(<po|pk|vp|ko|vk> <has default 0|1>)`

* `<facts>` `((mro (<k> <class key>…)…) (holds (<pred id> <accepted key>…)…) (union <k>…) (newtype <k>…)
            (late <builtin id>…) (comps (<k> <component key>…)…) (rank (<k> <rank>)…))`
* `<cfg>`   `(<isStruct 0|1> <fallback id> ((<class key> <hook>)…) (<entry>…))`
* `<entry>` `(<pred> <kind> <tag> <builtin 0|1> <sub> <direct 0|1>)`, `<pred>` = `(tbl <pred id>)` | `(exact <k>)`,
            `<kind>` = `plain|factory|extended|unionreg`, `<sub>` = `none|cached|uncached`
* `<op>`    `(reghook <k> <tag>)` | `(regpred <entry>)` | `(dispatch <k>)` | `(dispatchnc <k>)` | `(call <k>)`
* `<sop>`   `(on <converter index> <op>)` | `(copy <source index> <cfg of the copy>)`
* `<hook>`  `(user n)` | `(builtin n)` | `(made f t <0|1> (<hook>…))` | `(fallback f t)`
* `<reply>` `-` for registrations and copies, the dispatched hook for `dispatch`/`dispatchnc`, the call tree for `call`

Facts whose component relation is not decreasing in `rank`, and operations on converters that do not exist, are
answered with `(err …)` — never with a default.
-/
namespace CattrsModel.Dispatch
open CattrsModel Sexp

def natList? : List Sexp → Option (List Nat) := fun xs => xs.mapM atomNat?

def section? (name : String) : List Sexp → Option (List Sexp)
  | [] => none
  | .list (.atom n :: rest) :: more => if n == name then some rest else section? name more
  | _ :: more => section? name more

def row? : Sexp → Option (Nat × List Nat)
  | .list (k :: vs) => do
    let k ← atomNat? k
    let vs ← natList? vs
    pure (k, vs)
  | _ => none

def rowsLookup (m : List (Nat × List Nat)) (k : Nat) : List Nat :=
  match m.find? (fun p => p.1 == k) with
  | some p => p.2
  | none => []

structure FactsData where
  mro : List (Nat × List Nat)
  holds : List (Nat × List Nat)
  union : List Nat
  newtype : List Nat
  late : List Nat
  comps : List (Nat × List Nat)
  rank : List (Nat × List Nat)

def factsDataOfSexp : Sexp → Option FactsData
  | .list secs => do
    let mro ← (← section? "mro" secs).mapM row?
    let holds ← (← section? "holds" secs).mapM row?
    let union ← natList? (← section? "union" secs)
    let newtype ← natList? (← section? "newtype" secs)
    let late ← natList? (← section? "late" secs)
    let comps ← (← section? "comps" secs).mapM row?
    let rank ← (← section? "rank" secs).mapM row?
    pure ⟨mro, holds, union, newtype, late, comps, rank⟩
  | _ => none

def FactsData.rankOf (d : FactsData) (k : Nat) : Nat := (rowsLookup d.rank k).headD 0

def FactsData.toFacts (d : FactsData) : Facts :=
  { mro := rowsLookup d.mro
    holds := fun p t => (rowsLookup d.holds p).contains t
    isUnion := fun t => d.union.contains t
    isNewtype := fun t => d.newtype.contains t
    late := fun n => d.late.contains n
    comps := rowsLookup d.comps
    rank := d.rankOf }

/-- the executable form of `Facts.WF` on the listed rows -/
def FactsData.wf (d : FactsData) : Bool :=
  d.comps.all (fun row => row.2.all (fun c => decide (d.rankOf c < d.rankOf row.1)))

partial def hookOfSexp : Sexp → Option Hook
  | .list [.atom "user", n] => (atomNat? n).map Hook.user
  | .list [.atom "builtin", n] => (atomNat? n).map Hook.builtin
  | .list [.atom "fallback", f, t] => do pure (Hook.fallback (← atomNat? f) (← atomNat? t))
  | .list [.atom "made", f, t, wc, .list subs] => do
    pure (Hook.made (← atomNat? f) (← atomNat? t) (← bool? wc) (← subs.mapM hookOfSexp))
  | _ => none

partial def sexpOfHook : Hook → Sexp
  | .user n => .list [.atom "user", ofNat n]
  | .builtin n => .list [.atom "builtin", ofNat n]
  | .fallback f t => .list [.atom "fallback", ofNat f, ofNat t]
  | .made f t wc subs => .list [.atom "made", ofNat f, ofNat t, ofBool wc, .list (subs.map sexpOfHook)]

def predOfSexp : Sexp → Option PredRef
  | .list [.atom "tbl", p] => (atomNat? p).map PredRef.tbl
  | .list [.atom "exact", k] => (atomNat? k).map PredRef.exact
  | _ => none

def kindOfSexp : Sexp → Option Kind
  | .atom "plain" => some .plain
  | .atom "factory" => some .factory
  | .atom "extended" => some .extended
  | .atom "unionreg" => some .unionreg
  | _ => none

def subOfSexp : Sexp → Option SubMode
  | .atom "none" => some .none
  | .atom "cached" => some .cached
  | .atom "uncached" => some .uncached
  | _ => none

def entryOfSexp : Sexp → Option Entry
  | .list [p, k, tag, b, sub, d] => do
    pure { pred := ← predOfSexp p, kind := ← kindOfSexp k, tag := ← atomNat? tag, builtin := ← bool? b,
           sub := ← subOfSexp sub, direct := ← bool? d }
  | _ => none

def cfgOfSexp : Sexp → Option Cfg
  | .list [st, fb, .list singles, .list ents] => do
    let single ← singles.mapM (fun (x : Sexp) => match x with
      | .list [ck, h] => do pure ((← atomNat? ck), (← hookOfSexp h))
      | _ => none)
    pure { isStruct := ← bool? st, fb := ← atomNat? fb, single := single, preds := ← ents.mapM entryOfSexp }
  | _ => none

def opOfSexp : Sexp → Option Op
  | .list [.atom "reghook", ty, tag] => do pure (Op.regHook (← atomNat? ty) (← atomNat? tag))
  | .list [.atom "regpred", e] => (entryOfSexp e).map Op.regPred
  | .list [.atom "dispatch", ty] => (atomNat? ty).map Op.dispatch
  | .list [.atom "dispatchnc", ty] => (atomNat? ty).map Op.dispatchNC
  | .list [.atom "call", ty] => (atomNat? ty).map Op.call
  | _ => none

def sopOfSexp : Sexp → Option SOp
  | .list [.atom "on", i, op] => do pure (SOp.on (← atomNat? i) (← opOfSexp op))
  | .list [.atom "copy", src, cfg] => do pure (SOp.copy (← atomNat? src) (← cfgOfSexp cfg))
  | _ => none

/-- what the harness is told about an operation (the state change is `step` itself) -/
def replyOf (F : Facts) (s : St) : Op → Sexp
  | .dispatch t => sexpOfHook (dispatch F s t).2
  | .dispatchNC t => sexpOfHook (dispatchUncached F s t).2
  | .call t => sexpOfHook (call F s t).2
  | _ => .atom "-"

def runStore (F : Facts) : Store → List SOp → List Sexp → Option (List Sexp)
  | _, [], acc => some acc.reverse
  | σ, sop :: rest, acc =>
    match sop with
    | .on i op =>
      match σ[i]? with
      | some s => runStore F (sstep F σ sop) rest (replyOf F s op :: acc)
      | none => none
    | .copy src _ =>
      match σ[src]? with
      | some _ => runStore F (sstep F σ sop) rest (.atom "-" :: acc)
      | none => none

def err (what : String) : Sexp := .list [.atom "err", .atom what]

def paramOfSexp : Sexp → Option Sig.Param
  | .list [.atom k, d] => do
    let kind ← match k with
      | "po" => some Sig.PKind.posOnly | "pk" => some Sig.PKind.posOrKw | "vp" => some Sig.PKind.varPos
      | "ko" => some Sig.PKind.kwOnly | "vk" => some Sig.PKind.varKw | _ => none
    pure { kind := kind, hasDefault := ← bool? d }
  | _ => none

def dispatchHandle (op : String) (args : List Sexp) : Option Sexp :=
  match op, args with
  | "RUNHIST", [fx, .list cfgs, .list sops] =>
    match factsDataOfSexp fx, cfgs.mapM cfgOfSexp, sops.mapM sopOfSexp with
    | some d, some cfgs, some sops =>
      if !d.wf then some (err "facts-rank-not-decreasing")
      else
        match runStore d.toFacts (cfgs.map init) sops [] with
        | some rs => some (.list (.atom "ok" :: rs))
        | none => some (err "no-such-converter")
    | none, _, _ => some (err "bad-facts")
    | _, none, _ => some (err "bad-cfg")
    | _, _, none => some (err "bad-op")
  | "LOCS", [fx, .list cfgs, .list sops] =>
    match factsDataOfSexp fx, cfgs.mapM cfgOfSexp, sops.mapM sopOfSexp with
    | some d, some cfgs, some sops =>
      if !d.wf then some (err "facts-rank-not-decreasing")
      else
        let σ := Locs.hrun d.toFacts (Locs.HStore.fresh cfgs) sops
        some (.list (.atom "ok" :: σ.convs.map (fun c => .list (c.locs.map ofNat))))
    | _, _, _ => some (err "bad-args")
  | "SPECSTORE", [fx, .list cfgs, .list sops, .list rows] =>
    match factsDataOfSexp fx, cfgs.mapM cfgOfSexp, sops.mapM sopOfSexp, rows.mapM row? with
    | some d, some cfgs, some sops, some rows =>
      if !d.wf then some (err "facts-rank-not-decreasing")
      else
        let os := origins cfgs sops
        match rows.mapM (fun (r : Nat × List Nat) => os[r.1]?.map (fun o => (o, r.2))) with
        | some ors =>
          some (.list (.atom "ok" :: ors.map (fun (p : Origin × List Nat) =>
            .list (p.2.map (fun k => sexpOfHook (spec d.toFacts p.1.cfg p.1.hist k))))))
        | none => some (err "no-such-converter")
    | _, _, _, _ => some (err "bad-args")
  | "SIGKIND", [.list ps] =>
    match ps.mapM paramOfSexp with
    | some s =>
      some (.list [.atom "ok", .atom (if Sig.kindOf s == Kind.extended then "extended" else "factory"),
                   ofBool (Sig.asksConverter s), ofBool (Sig.regular s),
                   ofBool (Sig.acceptsPos s (Sig.docArity s)), ofBool (Sig.acceptsPos s (Sig.implArity s))])
    | none => some (err "bad-signature")
  | "SPEC", [fx, cfg, .list ops, .list keys] =>
    match factsDataOfSexp fx, cfgOfSexp cfg, ops.mapM opOfSexp, natList? keys with
    | some d, some cfg, some ops, some keys =>
      if !d.wf then some (err "facts-rank-not-decreasing")
      else some (.list (.atom "ok" :: keys.map (fun k => sexpOfHook (spec d.toFacts cfg ops k))))
    | _, _, _, _ => some (err "bad-args")
  | _, _ => none

end CattrsModel.Dispatch
