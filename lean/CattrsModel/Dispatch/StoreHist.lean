import CattrsModel.Dispatch.LemmasHist
/-!
# Dispatch lemmas III: the registration history of a converter ANYWHERE in a store

C07 is stated for "any sequence of hook registrations".  A converter that was obtained through `copy()` / `deepcopy`
has a registration history too: the registrations its source had received when the copy was taken, followed by its
own.  `origins` computes, for every converter of a store history, the construction it was built as (`__init__` under
the options of the copy, with the SOURCE's fallback factory — fix F2) and that effective history, declaratively from the
store history alone (it never looks at a hook table).  `srun_tracked`: after ANY store history every converter of the
store satisfies the cache invariant and its registrations are indistinguishable (`RegEquiv`) from those of a converter
freshly constructed as its origin's `cfg` that received its origin's `hist`.  Theorem `C07_precedence_store`
(Props/C07.lean) follows.
-/
namespace CattrsModel.Dispatch

/-- where a converter of a store comes from: how it was constructed, and the operations that count as ITS history -/
structure Origin where
  cfg : Cfg
  hist : List Op
  deriving Inhabited

/-- an operation addressed to the converter itself -/
def Origin.snoc (o : Origin) (op : Op) : Origin := { o with hist := o.hist ++ [op] }

/-- `copy(**overrides)` of a converter with origin `o`; `cfg'` = what the constructor registers under the options of
the copy.  The copy inherits the source's fallback factory and the REGISTRATIONS of the source's history (warm-up
dispatches and calls of the source are not part of the copy's history) -/
def Origin.copied (o : Origin) (cfg' : Cfg) : Origin :=
  { cfg := { cfg' with fb := o.cfg.fb }, hist := o.hist.filter Op.isReg }

def ostep (os : List Origin) : SOp → List Origin
  | .on i op => os.modify i (fun o => o.snoc op)
  | .copy src cfg' =>
    match os[src]? with
    | some o => os ++ [o.copied cfg']
    | none => os

/-- the origins of the converters of `srun F (cfgs.map init) sops`, index by index -/
def origins (cfgs : List Cfg) (sops : List SOp) : List Origin :=
  sops.foldl ostep (cfgs.map (fun c => { cfg := c, hist := [] }))

/-- the constructions of one program: all tables of one direction (`st`), the constructor's class registrations do
not depend on the options (`sg`; true of the code: `str/bytes/int/float/Enum/Path`), and the constructor registers at
least one predicate entry (always true; see `C18_skip_zero_witness` for why it is needed) -/
def Cfg.fits (st : Bool) (sg : List (TyKey × Hook)) (c : Cfg) : Prop :=
  c.preds ≠ [] ∧ c.isStruct = st ∧ c.single = sg

def SOp.fits (st : Bool) (sg : List (TyKey × Hook)) : SOp → Prop
  | .copy _ cfg' => cfg'.fits st sg
  | _ => True

/-- converter state `s` is, for every lookup, the converter constructed as `o.cfg` after history `o.hist` -/
structure Tracks (F : Facts) (st : Bool) (sg : List (TyKey × Hook)) (s : St) (o : Origin) : Prop where
  ok : CacheOK F s
  equiv : RegEquiv s.regs (regsAfter F o.cfg o.hist)
  skip : s.regs.skip = o.cfg.preds.length
  fits : o.cfg.fits st sg

theorem RegEquiv.trans' {a b c : Regs} (h1 : RegEquiv a b) (h2 : RegEquiv b c) : RegEquiv a c :=
  ⟨h1.single.trans h2.single, h1.preds.trans h2.preds, h1.unionReg.trans h2.unionReg, h1.fb.trans h2.fb,
   h1.isStruct.trans h2.isStruct⟩

theorem regStep_skip (F : Facts) (r : Regs) (op : Op) : (regStep F r op).skip = r.skip := by
  rw [regStep_closed]

theorem alookup_append_congr {a a' b b' : List (TyKey × Hook)} (h1 : alookup a = alookup a')
    (h2 : alookup b = alookup b') : alookup (a ++ b) = alookup (a' ++ b') := by
  funext t
  rw [alookup_append, alookup_append, h1, h2]

/-- `copy` of two converters that no lookup can tell apart (and that skip the same number of built-in entries) gives
converters that no lookup can tell apart -/
theorem copyOf_congr {a b : St} (cfg' : Cfg) (e : RegEquiv a.regs b.regs) (hk : a.regs.skip = b.regs.skip) :
    RegEquiv (copyOf a cfg').regs (copyOf b cfg').regs := by
  refine ⟨?_, ?_, ?_, ?_, rfl⟩
  · simp only [copyOf, initRegs]
    exact alookup_append_congr e.single rfl
  · simp only [copyOf, initRegs, e.preds, hk]
  · simp only [copyOf, initRegs]
    exact alookup_append_congr e.unionReg rfl
  · simp only [copyOf, initRegs, e.fb]

theorem tracks_init (F : Facts) (st : Bool) (sg : List (TyKey × Hook)) (c : Cfg) (h : c.fits st sg) :
    Tracks F st sg (init c) { cfg := c, hist := [] } :=
  ⟨init_ok F c, RegEquiv.rfl' _, rfl, h⟩

theorem tracks_step (F : Facts) {st : Bool} {sg : List (TyKey × Hook)} {s : St} {o : Origin}
    (h : Tracks F st sg s o) (op : Op) : Tracks F st sg (step F s op) (o.snoc op) := by
  have g := step_good F s op h.ok
  have hr : regsAfter F o.cfg (o.hist ++ [op]) = regStep F (regsAfter F o.cfg o.hist) op := by
    simp [regsAfter, List.foldl_append]
  refine ⟨g.1, ?_, ?_, h.fits⟩
  · show RegEquiv (step F s op).regs (regsAfter F o.cfg (o.hist ++ [op]))
    rw [g.2, hr]
    exact regStep_congr F h.equiv op
  · show (step F s op).regs.skip = o.cfg.preds.length
    rw [g.2, regStep_skip, h.skip]

theorem tracks_copy (F : Facts) {st : Bool} {sg : List (TyKey × Hook)} {s : St} {o : Origin}
    (h : Tracks F st sg s o) (cfg' : Cfg) (hc : cfg'.fits st sg) :
    Tracks F st sg (copyOf s cfg') (o.copied cfg') := by
  refine ⟨cacheOK_empty F _, ?_, rfl, ⟨hc.1, hc.2.1, hc.2.2⟩⟩
  show RegEquiv (copyOf s cfg').regs (regsAfter F { cfg' with fb := o.cfg.fb } (o.hist.filter Op.isReg))
  rw [regsAfter_filter]
  let s0 : St := { regs := regsAfter F o.cfg o.hist }
  have e1 : RegEquiv (copyOf s cfg').regs (copyOf s0 cfg').regs :=
    copyOf_congr cfg' h.equiv (by rw [h.skip]; exact (regsAfter_skip F o.cfg o.hist).symm)
  have e2 : RegEquiv (copyOf s0 cfg').regs (regsAfter F { cfg' with fb := o.cfg.fb } o.hist) :=
    copyOf_equiv F o.cfg cfg' o.hist s0 rfl h.fits.1 (hc.2.1.trans h.fits.2.1.symm) (hc.2.2.trans h.fits.2.2.symm)
  exact e1.trans' e2

/-- store and origins run in lock step -/
def Tracked (F : Facts) (st : Bool) (sg : List (TyKey × Hook)) (σ : Store) (os : List Origin) : Prop :=
  σ.length = os.length ∧ ∀ (i : Nat) (s : St) (o : Origin), σ[i]? = some s → os[i]? = some o → Tracks F st sg s o

theorem tracked_fresh (F : Facts) (st : Bool) (sg : List (TyKey × Hook)) (cfgs : List Cfg)
    (h : ∀ c ∈ cfgs, c.fits st sg) :
    Tracked F st sg (cfgs.map init) (cfgs.map (fun c => { cfg := c, hist := [] })) := by
  refine ⟨by simp, fun i s o hs ho => ?_⟩
  rw [List.getElem?_map] at hs ho
  cases hc : cfgs[i]? with
  | none => rw [hc] at hs; cases hs
  | some c =>
    rw [hc] at hs ho
    simp only [Option.map_some, Option.some.injEq] at hs ho
    subst hs; subst ho
    exact tracks_init F st sg c (h c (List.mem_of_getElem? hc))

theorem sstep_tracked (F : Facts) {st : Bool} {sg : List (TyKey × Hook)} {σ : Store} {os : List Origin}
    (h : Tracked F st sg σ os) (op : SOp) (hop : op.fits st sg) :
    Tracked F st sg (sstep F σ op) (ostep os op) := by
  obtain ⟨hl, ht⟩ := h
  cases op with
  | on j o =>
    refine ⟨by simp [sstep, ostep, hl], fun i s og hs hog => ?_⟩
    simp only [sstep, List.getElem?_modify] at hs
    simp only [ostep, List.getElem?_modify] at hog
    cases hσ : σ[i]? with
    | none => rw [hσ] at hs; cases hs
    | some s0 =>
      cases hos : os[i]? with
      | none => rw [hos] at hog; cases hog
      | some o0 =>
        rw [hσ] at hs
        rw [hos] at hog
        simp only [Option.map_eq_map, Option.map_some, Option.some.injEq] at hs hog
        have t0 := ht i s0 o0 hσ hos
        by_cases hji : j = i
        · rw [if_pos hji] at hs hog
          subst hs; subst hog
          exact tracks_step F t0 o
        · rw [if_neg hji] at hs hog
          subst hs; subst hog
          exact t0
  | copy src cfg' =>
    simp only [sstep, ostep]
    cases hsrc : σ[src]? with
    | none =>
      have : os[src]? = none := by
        rw [List.getElem?_eq_none_iff] at hsrc ⊢
        omega
      rw [this]
      exact ⟨hl, ht⟩
    | some s0 =>
      have hlt : src < os.length := by
        rcases Nat.lt_or_ge src σ.length with h | h
        · omega
        · rw [List.getElem?_eq_none h] at hsrc; cases hsrc
      have hos : os[src]? = some os[src] := List.getElem?_eq_getElem hlt
      rw [hos]
      simp only
      refine ⟨by simp [hl], fun i s og hs hog => ?_⟩
      rcases Nat.lt_or_ge i σ.length with hi | hi
      · rw [List.getElem?_append_left hi] at hs
        rw [List.getElem?_append_left (by omega)] at hog
        exact ht i s og hs hog
      · rw [List.getElem?_append_right hi] at hs
        rw [List.getElem?_append_right (by omega)] at hog
        rw [← hl] at hog
        cases hk : i - σ.length with
        | zero =>
          rw [hk] at hs hog
          simp only [List.getElem?_cons_zero, Option.some.injEq] at hs hog
          subst hs; subst hog
          exact tracks_copy F (ht src s0 _ hsrc hos) cfg' hop
        | succ k => rw [hk] at hs; simp at hs

theorem srun_tracked (F : Facts) (st : Bool) (sg : List (TyKey × Hook)) : ∀ (ops : List SOp) (σ : Store)
    (os : List Origin), Tracked F st sg σ os → (∀ op ∈ ops, op.fits st sg) →
    Tracked F st sg (srun F σ ops) (ops.foldl ostep os) := by
  intro ops
  induction ops with
  | nil => intro σ os h _; exact h
  | cons op ops ih =>
    intro σ os h hall
    exact ih _ _ (sstep_tracked F h op (hall op List.mem_cons_self)) (fun o ho => hall o (List.mem_cons_of_mem _ ho))

end CattrsModel.Dispatch
