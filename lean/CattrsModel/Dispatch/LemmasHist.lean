import CattrsModel.Dispatch.Lemmas
/-!
# Dispatch lemmas II: histories — every operation keeps the invariant, closed form of the registrations after a
history, the declarative rule, equivalence of registrations, copy()
-/
namespace CattrsModel.Dispatch

/-! ## every operation keeps the cache invariant; only registrations change the registrations -/

theorem registerFuncList_good (F : Facts) (s : St) (e : Entry) :
    CacheOK F (registerFuncList s e) ∧ (registerFuncList s e).regs = { s.regs with preds := e :: s.regs.preds } :=
  ⟨cacheOK_empty F _, rfl⟩

theorem registerClsList_good (F : Facts) (s : St) (c : TyKey) (h : Hook) :
    CacheOK F (registerClsList s c h) ∧
      (registerClsList s c h).regs = { s.regs with single := (c, h) :: s.regs.single } :=
  ⟨cacheOK_empty F _, rfl⟩

theorem step_good (F : Facts) (s : St) (op : Op) (hs : CacheOK F s) :
    CacheOK F (step F s op) ∧ (step F s op).regs = regStep F s.regs op := by
  cases op with
  | regHook ty tag =>
    simp only [step, registerHook, regStep]
    split
    · split
      · exact ⟨cacheOK_empty F _, rfl⟩
      · exact registerFuncList_good F s _
    · split
      · exact registerFuncList_good F s _
      · exact registerClsList_good F s _ _
  | regPred e => exact registerFuncList_good F s e
  | dispatch t => exact ⟨(dispatch_good F s t hs).ok, (dispatch_good F s t hs).regs⟩
  | dispatchNC t => exact ⟨(dispatchUncached_good F s t hs).ok, (dispatchUncached_good F s t hs).regs⟩
  | call t => exact ⟨(call_good F s t hs).2.1, (call_good F s t hs).1⟩

theorem run_good (F : Facts) : ∀ (ops : List Op) (s : St), CacheOK F s →
    CacheOK F (run F s ops) ∧ (run F s ops).regs = ops.foldl (regStep F) s.regs := by
  intro ops
  induction ops with
  | nil => intro s hs; exact ⟨hs, rfl⟩
  | cons op ops ih =>
    intro s hs
    have g := step_good F s op hs
    have := ih (step F s op) g.1
    simp only [run, List.foldl_cons] at this ⊢
    rw [g.2] at this
    exact this

theorem regStep_nonreg (F : Facts) (r : Regs) (op : Op) (h : op.isReg = false) : regStep F r op = r := by
  cases op <;> simp [Op.isReg] at h <;> rfl

theorem foldl_regStep_filter (F : Facts) : ∀ (ops : List Op) (r : Regs),
    ops.foldl (regStep F) r = (ops.filter Op.isReg).foldl (regStep F) r := by
  intro ops
  induction ops with
  | nil => intro r; rfl
  | cons op ops ih =>
    intro r
    cases h : op.isReg with
    | true => simp only [List.foldl_cons, List.filter_cons, h, if_true]; exact ih _
    | false =>
      simp only [List.foldl_cons, List.filter_cons, h, Bool.false_eq_true, if_false]
      rw [regStep_nonreg F r op h]; exact ih _

/-- the registrations after a history -/
def regsAfter (F : Facts) (cfg : Cfg) (h : List Op) : Regs := h.foldl (regStep F) (initRegs cfg)

theorem init_ok (F : Facts) (cfg : Cfg) : CacheOK F (init cfg) := cacheOK_empty F _

theorem run_init (F : Facts) (cfg : Cfg) (ops : List Op) :
    CacheOK F (run F (init cfg) ops) ∧ (run F (init cfg) ops).regs = regsAfter F cfg ops :=
  run_good F ops (init cfg) (init_ok F cfg)

theorem regsAfter_filter (F : Facts) (cfg : Cfg) (ops : List Op) :
    regsAfter F cfg (ops.filter Op.isReg) = regsAfter F cfg ops :=
  (foldl_regStep_filter F ops _).symm

/-! ## closed form of the registrations after a history -/

/-- the class-registry entry a registration creates, if any -/
def Op.asSingle (F : Facts) : Op → Option (TyKey × Hook)
  | .regHook ty tag => if F.isUnion ty then none else if F.isNewtype ty then none else some (ty, .user tag)
  | _ => none

/-- the union-registry entry a registration creates, if any -/
def Op.asUnion (F : Facts) (isStruct : Bool) : Op → Option (TyKey × Hook)
  | .regHook ty tag => if F.isUnion ty then (if isStruct then some (ty, .user tag) else none) else none
  | _ => none

theorem regStep_closed (F : Facts) (r : Regs) (op : Op) :
    regStep F r op = { r with
      single := ([op].filterMap (Op.asSingle F)) ++ r.single,
      preds := ([op].filterMap (Op.asEntry F r.isStruct)) ++ r.preds,
      unionReg := ([op].filterMap (Op.asUnion F r.isStruct)) ++ r.unionReg } := by
  cases op with
  | regHook ty tag =>
    simp only [regStep, Op.asSingle, Op.asEntry, Op.asUnion, List.filterMap_cons, List.filterMap_nil]
    cases hu : F.isUnion ty <;> cases hn : F.isNewtype ty <;> cases hs : r.isStruct <;> simp
  | regPred e => simp [regStep, Op.asSingle, Op.asEntry, Op.asUnion]
  | dispatch t => cases r; rfl
  | dispatchNC t => cases r; rfl
  | call t => cases r; rfl

theorem foldl_regStep_closed (F : Facts) : ∀ (h : List Op) (r : Regs),
    h.foldl (regStep F) r = { r with
      single := (h.reverse.filterMap (Op.asSingle F)) ++ r.single,
      preds := (h.reverse.filterMap (Op.asEntry F r.isStruct)) ++ r.preds,
      unionReg := (h.reverse.filterMap (Op.asUnion F r.isStruct)) ++ r.unionReg } := by
  intro h
  induction h with
  | nil => intro r; simp
  | cons op h ih =>
    intro r
    simp only [List.foldl_cons]
    rw [ih (regStep F r op), regStep_closed F r op]
    simp [List.filterMap_append, List.append_assoc]

theorem regsAfter_closed (F : Facts) (cfg : Cfg) (h : List Op) :
    regsAfter F cfg h = { initRegs cfg with
      single := (h.reverse.filterMap (Op.asSingle F)) ++ cfg.single,
      preds := userEntries F cfg h ++ cfg.preds,
      unionReg := h.reverse.filterMap (Op.asUnion F cfg.isStruct) } := by
  unfold regsAfter
  rw [foldl_regStep_closed]
  simp [initRegs, userEntries]

/-! ## the declarative rule -/

theorem alookup_asSingle (F : Facts) (l : List Op) (c : TyKey) :
    alookup (l.filterMap (Op.asSingle F)) c = l.findSome? (fun op => match op with
      | .regHook ty tag => if ty = c ∧ F.isUnion ty = false ∧ F.isNewtype ty = false then some (Hook.user tag) else none
      | _ => none) := by
  induction l with
  | nil => rfl
  | cons op l ih =>
    cases op with
    | regHook ty tag =>
      simp only [List.filterMap_cons, Op.asSingle, List.findSome?_cons]
      cases hu : F.isUnion ty <;> cases hn : F.isNewtype ty <;> simp [alookup, ih]
      split <;> simp_all
    | regPred e => simpa [List.filterMap_cons, Op.asSingle, List.findSome?_cons] using ih
    | dispatch t => simpa [List.filterMap_cons, Op.asSingle, List.findSome?_cons] using ih
    | dispatchNC t => simpa [List.filterMap_cons, Op.asSingle, List.findSome?_cons] using ih
    | call t => simpa [List.filterMap_cons, Op.asSingle, List.findSome?_cons] using ih

theorem alookup_asUnion (F : Facts) (isStruct : Bool) (l : List Op) (t : TyKey) :
    alookup (l.filterMap (Op.asUnion F isStruct)) t = l.findSome? (fun op => match op with
      | .regHook ty tag => if ty = t ∧ F.isUnion ty = true ∧ isStruct = true then some (Hook.user tag) else none
      | _ => none) := by
  induction l with
  | nil => rfl
  | cons op l ih =>
    cases op with
    | regHook ty tag =>
      simp only [List.filterMap_cons, Op.asUnion, List.findSome?_cons]
      rw [← ih]
      cases hu : F.isUnion ty <;> cases isStruct <;> simp [alookup]
      split <;> simp_all
    | regPred e => simpa [List.filterMap_cons, Op.asUnion, List.findSome?_cons] using ih
    | dispatch t => simpa [List.filterMap_cons, Op.asUnion, List.findSome?_cons] using ih
    | dispatchNC t => simpa [List.filterMap_cons, Op.asUnion, List.findSome?_cons] using ih
    | call t => simpa [List.filterMap_cons, Op.asUnion, List.findSome?_cons] using ih

theorem regsAfter_single (F : Facts) (cfg : Cfg) (h : List Op) (c : TyKey) :
    alookup (regsAfter F cfg h).single c = classHook F cfg h c := by
  rw [regsAfter_closed]
  simp only [alookup_append, alookup_asSingle]
  unfold classHook
  cases h.reverse.findSome? _ <;> rfl

theorem regsAfter_union (F : Facts) (cfg : Cfg) (h : List Op) (t : TyKey) :
    alookup (regsAfter F cfg h).unionReg t = unionHook F cfg h t := by
  rw [regsAfter_closed]
  simp only [alookup_asUnion]
  rfl

theorem regsAfter_accepts (F : Facts) (cfg : Cfg) (h : List Op) (e : Entry) (t : TyKey) :
    e.accepts F (regsAfter F cfg h) t = specAccepts F cfg h e t := by
  unfold Entry.accepts specAccepts
  rw [regsAfter_union]

theorem regsAfter_fb (F : Facts) (cfg : Cfg) (h : List Op) : (regsAfter F cfg h).fb = cfg.fb := by
  rw [regsAfter_closed]; rfl

theorem regsAfter_entryHook (F : Facts) (cfg : Cfg) (h : List Op) (e : Entry) (t : TyKey) (subs : List Hook) :
    entryHook (regsAfter F cfg h) e t subs = specEntryHook F cfg h e t subs := by
  unfold entryHook specEntryHook
  rw [regsAfter_union, regsAfter_fb]

theorem choose_spec (F : Facts) (cfg : Cfg) (h : List Op) (t : TyKey) (subs : List Hook) :
    choose F (regsAfter F cfg h) t subs = specChoose F cfg h t subs := by
  unfold choose specChoose classTier firstEntry
  have h1 : alookup (regsAfter F cfg h).single = classHook F cfg h := funext (regsAfter_single F cfg h)
  have h2 : (fun e => Entry.accepts F (regsAfter F cfg h) e t) = (fun e => specAccepts F cfg h e t) :=
    funext (fun e => regsAfter_accepts F cfg h e t)
  rw [h1, h2]
  cases (F.mro t).findSome? (classHook F cfg h) with
  | some hk => rfl
  | none =>
    simp only
    have h3 : (regsAfter F cfg h).preds = userEntries F cfg h ++ cfg.preds := by rw [regsAfter_closed]
    rw [h3, List.find?_append]
    cases (userEntries F cfg h).find? (fun e => specAccepts F cfg h e t) with
    | some e => exact regsAfter_entryHook F cfg h e t subs
    | none =>
      simp only [Option.none_or]
      cases cfg.preds.find? (fun e => specAccepts F cfg h e t) with
      | some e => exact regsAfter_entryHook F cfg h e t subs
      | none => simp only; rw [regsAfter_fb]

theorem resolveN_spec (F : Facts) (cfg : Cfg) (h : List Op) : ∀ (n : Nat) (t : TyKey),
    resolveN F (regsAfter F cfg h) n t = specN F cfg h n t := by
  intro n
  induction n with
  | zero => intro t; exact choose_spec F cfg h t []
  | succ n ih =>
    intro t
    simp only [resolveN, specN]
    rw [choose_spec]
    congr 1
    exact List.map_congr_left (fun c _ => ih c)

theorem resolve_spec (F : Facts) (cfg : Cfg) (h : List Op) (t : TyKey) :
    resolve F (regsAfter F cfg h) t = spec F cfg h t :=
  resolveN_spec F cfg h _ t

theorem spec_unfold (F : Facts) (cfg : Cfg) (h : List Op) (t : TyKey) :
    spec F cfg h t = specChoose F cfg h t ((F.sub t).map (spec F cfg h)) := by
  rw [← resolve_spec, resolve_unfold, choose_spec]
  congr 1
  exact List.map_congr_left (fun c _ => resolve_spec F cfg h c)

/-! ## equivalent registrations -/

/-- registrations that no lookup can tell apart -/
structure RegEquiv (r r' : Regs) : Prop where
  single : alookup r.single = alookup r'.single
  preds : r.preds = r'.preds
  unionReg : alookup r.unionReg = alookup r'.unionReg
  fb : r.fb = r'.fb
  isStruct : r.isStruct = r'.isStruct

theorem RegEquiv.rfl' (r : Regs) : RegEquiv r r := ⟨rfl, rfl, rfl, rfl, rfl⟩

theorem choose_congr (F : Facts) {r r' : Regs} (e : RegEquiv r r') (t : TyKey) (subs : List Hook) :
    choose F r t subs = choose F r' t subs := by
  unfold choose classTier firstEntry
  have ha : (fun x => Entry.accepts F r x t) = (fun x => Entry.accepts F r' x t) := by
    funext x; unfold Entry.accepts; rw [e.unionReg]
  have hh : ∀ x, entryHook r x t subs = entryHook r' x t subs := by
    intro x; unfold entryHook; rw [e.unionReg, e.fb]
  rw [e.single, e.preds, ha, e.fb]
  cases (F.mro t).findSome? (alookup r'.single) with
  | some h => rfl
  | none =>
    simp only
    cases r'.preds.find? (fun x => Entry.accepts F r' x t) with
    | none => rfl
    | some x => exact hh x

theorem resolveN_congr (F : Facts) {r r' : Regs} (e : RegEquiv r r') : ∀ (n : Nat) (t : TyKey),
    resolveN F r n t = resolveN F r' n t := by
  intro n
  induction n with
  | zero => intro t; exact choose_congr F e t []
  | succ n ih =>
    intro t
    simp only [resolveN]
    rw [choose_congr F e]
    congr 1
    exact List.map_congr_left (fun c _ => ih c)

theorem resolve_congr (F : Facts) {r r' : Regs} (e : RegEquiv r r') (t : TyKey) :
    resolve F r t = resolve F r' t := resolveN_congr F e _ t

theorem behave_congr (F : Facts) {r r' : Regs} (e : ∀ t, resolve F r t = resolve F r' t) (h : Hook) (t : TyKey) :
    behave F r h t = behave F r' h t := by
  have : resolve F r = resolve F r' := funext e
  unfold behave; rw [this]

theorem alookup_cons_congr {a b : List (TyKey × Hook)} (h : alookup a = alookup b) (p : TyKey × Hook) :
    alookup (p :: a) = alookup (p :: b) := by
  funext t
  obtain ⟨k, x⟩ := p
  simp only [alookup]
  rw [h]

theorem regStep_congr (F : Facts) {r r' : Regs} (e : RegEquiv r r') (op : Op) :
    RegEquiv (regStep F r op) (regStep F r' op) := by
  cases op with
  | regHook ty tag =>
    simp only [regStep]
    rw [← e.isStruct]
    split
    · split
      · exact ⟨e.single, e.preds, alookup_cons_congr e.unionReg _, e.fb, rfl⟩
      · exact ⟨e.single, by simp [e.preds], e.unionReg, e.fb, rfl⟩
    · split
      · exact ⟨e.single, by simp [e.preds], e.unionReg, e.fb, rfl⟩
      · exact ⟨alookup_cons_congr e.single _, e.preds, e.unionReg, e.fb, rfl⟩
  | regPred x => exact ⟨e.single, by simp [regStep, e.preds], e.unionReg, e.fb, e.isStruct⟩
  | dispatch t => exact e
  | dispatchNC t => exact e
  | call t => exact e

theorem foldl_regStep_congr (F : Facts) : ∀ (ops : List Op) {r r' : Regs}, RegEquiv r r' →
    RegEquiv (ops.foldl (regStep F) r) (ops.foldl (regStep F) r') := by
  intro ops
  induction ops with
  | nil => intro r r' e; exact e
  | cons op ops ih => intro r r' e; exact ih (regStep_congr F e op)

/-! ## copy() -/

theorem pyDropLast_append {α : Type} (u b : List α) (hb : b ≠ []) : pyDropLast (u ++ b) b.length = u := by
  unfold pyDropLast
  have : b.length ≠ 0 := by
    intro h; exact hb (List.eq_nil_of_length_eq_zero h)
  rw [if_neg this]
  simp

theorem regsAfter_skip (F : Facts) (cfg : Cfg) (h : List Op) : (regsAfter F cfg h).skip = cfg.preds.length := by
  rw [regsAfter_closed]; rfl

theorem regsAfter_isStruct (F : Facts) (cfg : Cfg) (h : List Op) : (regsAfter F cfg h).isStruct = cfg.isStruct := by
  rw [regsAfter_closed]; rfl

/-- copying a converter that was constructed as `cfg` and then received history `h`, under options whose
constructor registers `cfg'`: indistinguishable from constructing with `cfg'` (and the original's fallback factory)
and replaying `h` -/
theorem copyOf_equiv (F : Facts) (cfg cfg' : Cfg) (h : List Op) (s : St)
    (hs : s.regs = regsAfter F cfg h) (hne : cfg.preds ≠ [])
    (hdir : cfg'.isStruct = cfg.isStruct) (hsingle : cfg'.single = cfg.single) :
    RegEquiv (copyOf s cfg').regs (regsAfter F { cfg' with fb := cfg.fb } h) := by
  have hc := regsAfter_closed F cfg h
  have hc' := regsAfter_closed F { cfg' with fb := cfg.fb } h
  rw [hc']
  simp only [copyOf, hs]
  rw [regsAfter_skip, regsAfter_fb]
  rw [hc]
  simp only [initRegs, userEntries, hdir, hsingle]
  rw [pyDropLast_append _ _ hne]
  refine ⟨?_, rfl, ?_, rfl, rfl⟩
  · funext t
    simp only [alookup_append]
    cases alookup (List.filterMap (Op.asSingle F) h.reverse) t <;> simp
  · simp

/-- two converters whose caches satisfy the invariant and whose registrations are equivalent cannot be told
apart by any dispatch or call -/
theorem obs_eq_of_equiv (F : Facts) (a b : St) (ha : CacheOK F a) (hb : CacheOK F b)
    (e : RegEquiv a.regs b.regs) (t : TyKey) :
    (dispatch F a t).2 = (dispatch F b t).2 ∧ (dispatchUncached F a t).2 = (dispatchUncached F b t).2 ∧
      (call F a t).2 = (call F b t).2 := by
  have hr : ∀ t, resolve F a.regs t = resolve F b.regs t := resolve_congr F e
  refine ⟨?_, ?_, ?_⟩
  · rw [(dispatch_good F a t ha).val, (dispatch_good F b t hb).val, hr]
  · rw [(dispatchUncached_good F a t ha).val, (dispatchUncached_good F b t hb).val, hr]
  · rw [(call_good F a t ha).2.2, (call_good F b t hb).2.2, hr, behave_congr F hr]

theorem run_equiv (F : Facts) (a b : St) (ha : CacheOK F a) (hb : CacheOK F b)
    (e : RegEquiv a.regs b.regs) (ops : List Op) :
    CacheOK F (run F a ops) ∧ CacheOK F (run F b ops) ∧ RegEquiv (run F a ops).regs (run F b ops).regs := by
  have ga := run_good F ops a ha
  have gb := run_good F ops b hb
  refine ⟨ga.1, gb.1, ?_⟩
  rw [ga.2, gb.2]
  exact foldl_regStep_congr F ops e

theorem specCall_eq (F : Facts) (cfg : Cfg) (h : List Op) (t : TyKey) :
    behave F (regsAfter F cfg h) (resolve F (regsAfter F cfg h) t) t = specCall F cfg h t := by
  have : resolve F (regsAfter F cfg h) = spec F cfg h := funext (resolve_spec F cfg h)
  unfold behave specCall
  rw [this]

/-! ## the store -/

theorem sstep_length_le (F : Facts) (σ : Store) (op : SOp) : σ.length ≤ (sstep F σ op).length := by
  cases op with
  | on i op => simp [sstep]
  | copy src cfg' =>
    simp only [sstep]
    split <;> simp

theorem sstep_frame (F : Facts) (σ : Store) (op : SOp) (i : Nat) (hi : i < σ.length)
    (ht : op.target ≠ some i) : (sstep F σ op)[i]? = σ[i]? := by
  cases op with
  | on j op =>
    simp only [SOp.target, ne_eq, Option.some.injEq] at ht
    simp only [sstep, List.getElem?_modify, ht, if_false]
    cases σ[i]? <;> rfl
  | copy src cfg' =>
    simp only [sstep]
    split
    · exact List.getElem?_append_left hi
    · rfl

theorem srun_frame (F : Facts) : ∀ (ops : List SOp) (σ : Store) (i : Nat), i < σ.length →
    (∀ op ∈ ops, op.target ≠ some i) → (srun F σ ops)[i]? = σ[i]? := by
  intro ops
  induction ops with
  | nil => intro σ i _ _; rfl
  | cons op ops ih =>
    intro σ i hi hall
    simp only [srun, List.foldl_cons]
    have h1 := sstep_frame F σ op i hi (hall op List.mem_cons_self)
    have h2 := ih (sstep F σ op) i (Nat.lt_of_lt_of_le hi (sstep_length_le F σ op))
      (fun o ho => hall o (List.mem_cons_of_mem _ ho))
    simp only [srun] at h2
    rw [h2, h1]

/-! ## converters anywhere in a store: what the constructor registered stays at the old end of the tables -/

/-- `r` belongs to a converter that was constructed as `cfg` (by `__init__` or by `copy`): the predicate list ends
with the constructor's entries, the class registry with the constructor's classes, and the skip count is the
number of the constructor's entries -/
structure BuiltAs (cfg : Cfg) (r : Regs) : Prop where
  preds : ∃ up, r.preds = up ++ cfg.preds
  single : ∃ us, r.single = us ++ cfg.single
  skip : r.skip = cfg.preds.length
  isStruct : r.isStruct = cfg.isStruct

theorem builtAs_init (cfg : Cfg) : BuiltAs cfg (initRegs cfg) :=
  ⟨⟨[], rfl⟩, ⟨[], rfl⟩, rfl, rfl⟩

theorem builtAs_regStep (F : Facts) {cfg : Cfg} {r : Regs} (b : BuiltAs cfg r) (op : Op) :
    BuiltAs cfg (regStep F r op) := by
  obtain ⟨⟨up, hp⟩, ⟨us, hs⟩, hk, hd⟩ := b
  cases op with
  | regHook ty tag =>
    simp only [regStep]
    split
    · split
      · exact ⟨⟨up, hp⟩, ⟨us, hs⟩, hk, hd⟩
      · exact ⟨⟨exactEntry ty tag :: up, by simp [hp]⟩, ⟨us, hs⟩, hk, hd⟩
    · split
      · exact ⟨⟨exactEntry ty tag :: up, by simp [hp]⟩, ⟨us, hs⟩, hk, hd⟩
      · exact ⟨⟨up, hp⟩, ⟨(ty, Hook.user tag) :: us, by simp [hs]⟩, hk, hd⟩
  | regPred e => exact ⟨⟨e :: up, by simp [regStep, hp]⟩, ⟨us, hs⟩, hk, hd⟩
  | dispatch t => exact ⟨⟨up, hp⟩, ⟨us, hs⟩, hk, hd⟩
  | dispatchNC t => exact ⟨⟨up, hp⟩, ⟨us, hs⟩, hk, hd⟩
  | call t => exact ⟨⟨up, hp⟩, ⟨us, hs⟩, hk, hd⟩

theorem builtAs_copyOf (s : St) (cfg' : Cfg) : BuiltAs cfg' (copyOf s cfg').regs :=
  ⟨⟨_, rfl⟩, ⟨_, rfl⟩, rfl, rfl⟩

/-- `copy()` with unchanged options of ANY converter constructed as `cfg` (whatever happened to it since) -/
theorem copyOf_equiv_built (cfg : Cfg) (s : St) (b : BuiltAs cfg s.regs) (hne : cfg.preds ≠ []) :
    RegEquiv (copyOf s cfg).regs s.regs := by
  obtain ⟨⟨up, hp⟩, ⟨us, hs⟩, hk, hd⟩ := b
  refine ⟨?_, ?_, ?_, rfl, hd.symm⟩
  · funext t
    simp only [copyOf, initRegs, hs, alookup_append]
    cases alookup us t <;> cases alookup cfg.single t <;> rfl
  · simp only [copyOf, initRegs, hp, hk]
    rw [pyDropLast_append _ _ hne]
  · simp [copyOf, initRegs]

/-- every converter of the store satisfies the cache invariant and is built as some construction with a non-empty
predicate list -/
def StoreOK (F : Facts) (σ : Store) : Prop :=
  ∀ (i : Nat) (s : St), σ[i]? = some s → CacheOK F s ∧ ∃ cfg, cfg.preds ≠ [] ∧ BuiltAs cfg s.regs

theorem storeOK_fresh (F : Facts) (cfgs : List Cfg) (h : ∀ c ∈ cfgs, c.preds ≠ []) : StoreOK F (cfgs.map init) := by
  intro i s hs
  rw [List.getElem?_map] at hs
  cases hc : cfgs[i]? with
  | none => rw [hc] at hs; cases hs
  | some c =>
    rw [hc] at hs
    simp only [Option.map_some, Option.some.injEq] at hs
    subst hs
    exact ⟨init_ok F c, c, h c (List.mem_of_getElem? hc), builtAs_init c⟩

def SOp.copyOK : SOp → Prop
  | .copy _ cfg' => cfg'.preds ≠ []
  | _ => True

theorem sstep_storeOK (F : Facts) (σ : Store) (op : SOp) (h : StoreOK F σ) (hop : op.copyOK) :
    StoreOK F (sstep F σ op) := by
  intro i s hs
  cases op with
  | on j o =>
    simp only [sstep, List.getElem?_modify] at hs
    cases hσ : σ[i]? with
    | none => rw [hσ] at hs; cases hs
    | some s0 =>
      rw [hσ] at hs
      simp only [Option.map_eq_map, Option.map_some, Option.some.injEq] at hs
      obtain ⟨hc, cfg, hne, hb⟩ := h i s0 hσ
      by_cases hji : j = i
      · rw [if_pos hji] at hs
        subst hs
        have g := step_good F s0 o hc
        exact ⟨g.1, cfg, hne, by rw [g.2]; exact builtAs_regStep F hb o⟩
      · rw [if_neg hji] at hs
        subst hs
        exact ⟨hc, cfg, hne, hb⟩
  | copy src cfg' =>
    simp only [sstep] at hs
    cases hsrc : σ[src]? with
    | none => rw [hsrc] at hs; exact h i s hs
    | some s0 =>
      rw [hsrc] at hs
      simp only at hs
      rcases Nat.lt_or_ge i σ.length with hi | hi
      · rw [List.getElem?_append_left hi] at hs; exact h i s hs
      · rw [List.getElem?_append_right hi] at hs
        cases hk : i - σ.length with
        | zero =>
          rw [hk] at hs
          simp only [List.getElem?_cons_zero, Option.some.injEq] at hs
          subst hs
          exact ⟨cacheOK_empty F _, cfg', hop, builtAs_copyOf s0 cfg'⟩
        | succ k => rw [hk] at hs; simp at hs

theorem srun_storeOK (F : Facts) : ∀ (ops : List SOp) (σ : Store), StoreOK F σ → (∀ op ∈ ops, op.copyOK) →
    StoreOK F (srun F σ ops) := by
  intro ops
  induction ops with
  | nil => intro σ h _; exact h
  | cons op ops ih =>
    intro σ h hall
    exact ih _ (sstep_storeOK F σ op h (hall op List.mem_cons_self)) (fun o ho => hall o (List.mem_cons_of_mem _ ho))

end CattrsModel.Dispatch
