/-!
# Dispatch model (C07 hook precedence, C08 cache transparency, C18 copy())

Transcription of `src/cattrs/dispatch.py` (`FunctionDispatch`, `MultiStrategyDispatch`) and of the registration /
copy methods of `src/cattrs/converters.py` for ONE of the two hook tables of a converter (the tables of the two
directions are independent objects; `Cfg.isStruct` says which one this is, because `register_structure_hook`
routes unions to the union registry while `register_unstructure_hook` routes them to an `==` predicate).

* Types are opaque keys; what cattrs / CPython would find out about a type comes as `Facts` (supplied by the
  harness, validated there): the classes `functools.singledispatch` would consider for it, in its preference order
  (`mro`, empty for non-classes because `singledispatch.dispatch` raises on them and the code swallows that), the
  truth table of the user predicates (`holds`; a raising predicate is a non-match, `FunctionDispatch.dispatch`
  L68-71), `is_union_type`, `get_newtype_base(..) is not None`, the component types a hook for the type looks
  up hooks for (`comps`) and a rank that makes the component relation well-founded.
* Hooks are terms: `user tag` (a function the user registered), `builtin n` (a function cattrs registered),
  `made f T withConv subs` (the result of calling hook factory `f` on type `T` — with the converter iff `withConv` —
  which captured the hooks `subs` for the component types of `T`), `fallback f T` (the fallback factory `f`
  applied to `T`).
* `resolve` is the cache-free lookup (`dispatch_without_caching` with empty direct table, nested lookups likewise);
  `dispNC`/`cachedBy`/`dispatch` is the real machine with the `lru_cache`, the direct table, the nested dispatches
  made by hook factories (threading the caches) and the direct-table write + `cache_clear()` made *during*
  dispatch by Converter's collection factories (`register_cls_list(.., direct=True)`).
* `call` runs a dispatched hook: hooks that dispatch at call time (`F.late`, e.g. BaseConverter's
  `_unstructure_seq`, `structure_attrs_fromdict`, `_structure_optional`) do so through the cached dispatch.
* `copyOf` is `BaseConverter.copy` / `Converter.copy` + `MultiStrategyDispatch.copy_to` + `FunctionDispatch.copy_to`
  (with Python's `[:-skip]`), as repaired by F1 (union registry carried over) and F2 (fallback factories passed on).
  `Store` is a list of converters addressed by index (`copy` appends).

No Mathlib.  All functions total and computable; recursion through component types is by fuel = `F.rank`.
-/
namespace CattrsModel.Dispatch

abbrev TyKey := Nat

/-- hook terms -/
inductive Hook where
  | user (tag : Nat)
  | builtin (n : Nat)
  | made (f : Nat) (ty : TyKey) (withConv : Bool) (subs : List Hook)
  | fallback (f : Nat) (ty : TyKey)
  deriving Repr, Inhabited

/- decidable equality (the deriving handler does not cover nested inductives); used by `decide` in examples -/
mutual
def Hook.decEq : (a b : Hook) → Decidable (a = b)
  | .user a, .user b => if h : a = b then isTrue (by rw [h]) else isFalse (by intro e; cases e; exact h rfl)
  | .builtin a, .builtin b => if h : a = b then isTrue (by rw [h]) else isFalse (by intro e; cases e; exact h rfl)
  | .fallback a a', .fallback b b' =>
    if h : a = b ∧ a' = b' then isTrue (by rw [h.1, h.2]) else isFalse (by intro e; cases e; exact h ⟨rfl, rfl⟩)
  | .made f t w s, .made f' t' w' s' =>
    if h : f = f' ∧ t = t' ∧ w = w' then
      match Hook.decEqList s s' with
      | isTrue hs => isTrue (by rw [h.1, h.2.1, h.2.2, hs])
      | isFalse hs => isFalse (by intro e; cases e; exact hs rfl)
    else isFalse (by intro e; cases e; exact h ⟨rfl, rfl, rfl⟩)
  | .user _, .builtin _ => isFalse (by intro e; cases e)
  | .user _, .made .. => isFalse (by intro e; cases e)
  | .user _, .fallback .. => isFalse (by intro e; cases e)
  | .builtin _, .user _ => isFalse (by intro e; cases e)
  | .builtin _, .made .. => isFalse (by intro e; cases e)
  | .builtin _, .fallback .. => isFalse (by intro e; cases e)
  | .made .., .user _ => isFalse (by intro e; cases e)
  | .made .., .builtin _ => isFalse (by intro e; cases e)
  | .made .., .fallback .. => isFalse (by intro e; cases e)
  | .fallback .., .user _ => isFalse (by intro e; cases e)
  | .fallback .., .builtin _ => isFalse (by intro e; cases e)
  | .fallback .., .made .. => isFalse (by intro e; cases e)
termination_by structural a => a
def Hook.decEqList : (a b : List Hook) → Decidable (a = b)
  | [], [] => isTrue rfl
  | [], _ :: _ => isFalse (by intro e; cases e)
  | _ :: _, [] => isFalse (by intro e; cases e)
  | x :: xs, y :: ys =>
    match Hook.decEq x y, Hook.decEqList xs ys with
    | isTrue h1, isTrue h2 => isTrue (by rw [h1, h2])
    | isFalse h1, _ => isFalse (by intro e; cases e; exact h1 rfl)
    | _, isFalse h2 => isFalse (by intro e; cases e; exact h2 rfl)
termination_by structural a => a
end
instance : DecidableEq Hook := Hook.decEq

/-- what a predicate-list entry hands out: a plain hook, a hook factory, a hook factory that also takes the
converter, or the built-in entry `(lambda t: is_union_type(t) and t in self._union_struct_registry,
self._union_struct_registry.__getitem__, True)` -/
inductive Kind where
  | plain | factory | extended | unionreg
  deriving Repr, DecidableEq, Inhabited

/-- how a hook factory obtains the hooks of the component types: not at all, through `get_*_hook(t)` /
`_*_func.dispatch(t)` (cached), or through `get_*_hook(t, cache_result=False)` -/
inductive SubMode where
  | none | cached | uncached
  deriving Repr, DecidableEq, Inhabited

/-- the predicate of an entry: a row of the harness' truth table, or "is exactly type `k`" (`lambda t: t is cls`
for NewTypes, `lambda t: t == cls` for unions, and the universe-restricted built-in predicates) -/
inductive PredRef where
  | tbl (p : Nat)
  | exact (k : TyKey)
  deriving Repr, DecidableEq, Inhabited

/-- one element of `FunctionDispatch._handler_pairs` -/
structure Entry where
  pred : PredRef
  kind : Kind
  tag : Nat
  /-- registered by the constructor (only decides whether a plain hook prints as `builtin` or `user`) -/
  builtin : Bool := false
  sub : SubMode := .none
  /-- the factory ends with `register_cls_list([(cl, h)], direct=True)` -/
  direct : Bool := false
  deriving Repr, Inhabited

structure Facts where
  mro : TyKey → List TyKey
  holds : Nat → TyKey → Bool
  isUnion : TyKey → Bool
  isNewtype : TyKey → Bool
  /-- built-in hook `n` dispatches on the component types when it is *called* -/
  late : Nat → Bool
  comps : TyKey → List TyKey
  rank : TyKey → Nat

/-- component types, restricted to those of smaller rank (identity on well-formed facts; the driver refuses
facts on which it is not) -/
def Facts.sub (F : Facts) (t : TyKey) : List TyKey :=
  (F.comps t).filter (fun c => decide (F.rank c < F.rank t))

def Facts.WF (F : Facts) : Prop := ∀ t c, c ∈ F.comps t → F.rank c < F.rank t

/-- what the constructor of a converter puts into one hook table -/
structure Cfg where
  isStruct : Bool
  /-- id of the fallback factory (0 = cattrs' default) -/
  fb : Nat
  /-- `register_cls_list` of the constructor, latest first -/
  single : List (TyKey × Hook)
  /-- the predicate list after the constructor, newest first -/
  preds : List Entry
  deriving Repr, Inhabited

/-- registrations of one hook table (+ the union registry and the copy-skip count of its converter) -/
structure Regs where
  isStruct : Bool
  fb : Nat
  /-- `_single_dispatch` registry; association list, newest first (a re-registration shadows) -/
  single : List (TyKey × Hook)
  /-- `_function_dispatch._handler_pairs` -/
  preds : List Entry
  /-- `_union_struct_registry` (dict; newest first, a re-registration shadows) -/
  unionReg : List (TyKey × Hook)
  /-- `_struct_copy_skip` / `_unstruct_copy_skip` -/
  skip : Nat
  deriving Repr, Inhabited

structure St where
  regs : Regs
  /-- `lru_cache` of `dispatch` -/
  lru : List (TyKey × Hook) := []
  /-- `_direct_dispatch` -/
  direct : List (TyKey × Hook) := []
  deriving Repr, Inhabited

def alookup : List (TyKey × Hook) → TyKey → Option Hook
  | [], _ => none
  | (k, h) :: m, t => if k = t then some h else alookup m t

/-! ## cache-free lookup -/

def PredRef.holds (F : Facts) : PredRef → TyKey → Bool
  | .tbl p, t => F.holds p t
  | .exact k, t => decide (k = t)

def Entry.accepts (F : Facts) (r : Regs) (e : Entry) (t : TyKey) : Bool :=
  match e.kind with
  | .unionreg => F.isUnion t && (alookup r.unionReg t).isSome
  | _ => e.pred.holds F t

def Kind.isFactory : Kind → Bool
  | .factory => true
  | .extended => true
  | _ => false

def Entry.wantsSubs (e : Entry) : Bool :=
  match e.sub with
  | .none => false
  | _ => true

/-- the hook entry `e` hands out for type `t` (`FunctionDispatch.dispatch` L72-78), given the hooks of the
component types -/
def entryHook (r : Regs) (e : Entry) (t : TyKey) (subs : List Hook) : Hook :=
  match e.kind with
  | .plain => if e.builtin then .builtin e.tag else .user e.tag
  | .unionreg => (alookup r.unionReg t).getD (.fallback r.fb t)
  | .factory => .made e.tag t false (if e.wantsSubs then subs else [])
  | .extended => .made e.tag t true (if e.wantsSubs then subs else [])

/-- `self._single_dispatch.dispatch(typ)` -/
def classTier (F : Facts) (r : Regs) (t : TyKey) : Option Hook :=
  (F.mro t).findSome? (alookup r.single)

/-- first entry of the predicate list whose predicate holds -/
def firstEntry (F : Facts) (r : Regs) (t : TyKey) : Option Entry :=
  r.preds.find? (fun e => e.accepts F r t)

/-- `dispatch_without_caching` with an empty direct table, given the hooks of the component types -/
def choose (F : Facts) (r : Regs) (t : TyKey) (subs : List Hook) : Hook :=
  match classTier F r t with
  | some h => h
  | none =>
    match firstEntry F r t with
    | none => .fallback r.fb t
    | some e => entryHook r e t subs

def resolveN (F : Facts) (r : Regs) : Nat → TyKey → Hook
  | 0, t => choose F r t []
  | n+1, t => choose F r t ((F.sub t).map (resolveN F r n))

/-- the cache-free specification of dispatch -/
def resolve (F : Facts) (r : Regs) (t : TyKey) : Hook := resolveN F r (F.rank t) t

/-! ## the cached machine -/

/-- thread a state through a list -/
def mapSt {σ α β : Type} (f : σ → α → σ × β) : σ → List α → σ × List β
  | s, [] => (s, [])
  | s, a :: as => ((mapSt f (f s a).1 as).1, (f s a).2 :: (mapSt f (f s a).1 as).2)

/-- `register_cls_list([(t, h)], direct=True)`: write the direct table, then `self.dispatch.cache_clear()` -/
def registerDirect (s : St) (t : TyKey) (h : Hook) : St :=
  { s with direct := (t, h) :: s.direct, lru := [] }

/-- the nested dispatches a hook factory makes for the component types of `t` -/
def subHooks (F : Facts) (subC subNC : St → TyKey → St × Hook) (s : St) (e : Entry) (t : TyKey) : St × List Hook :=
  match e.sub with
  | .none => (s, [])
  | .cached => mapSt subC s (F.sub t)
  | .uncached => mapSt subNC s (F.sub t)

/-- `dispatch_without_caching` (L120-134); `subC` / `subNC` are the cached / uncached dispatch used by hook
factories for the component types -/
def dispCore (F : Facts) (subC subNC : St → TyKey → St × Hook) (s : St) (t : TyKey) : St × Hook :=
  match classTier F s.regs t with
  | some h => (s, h)
  | none =>
    match alookup s.direct t with
    | some h => (s, h)
    | none =>
      match firstEntry F s.regs t with
      | none => (s, .fallback s.regs.fb t)
      | some e =>
        if e.kind.isFactory then
          let r := subHooks F subC subNC s e t
          let h := entryHook r.1.regs e t r.2
          if e.direct then (registerDirect r.1 t h, h) else (r.1, h)
        else (s, entryHook s.regs e t [])

/-- `lru_cache(maxsize=None)(f)` -/
def cachedBy (f : St → TyKey → St × Hook) (s : St) (t : TyKey) : St × Hook :=
  match alookup s.lru t with
  | some h => (s, h)
  | none => ({ (f s t).1 with lru := (t, (f s t).2) :: (f s t).1.lru }, (f s t).2)

/-- never reached on well-formed facts (fuel exhausted) -/
def stuck (s : St) (t : TyKey) : St × Hook := (s, .fallback s.regs.fb t)

def dispNC (F : Facts) : Nat → St → TyKey → St × Hook
  | 0 => dispCore F stuck stuck
  | n+1 => dispCore F (cachedBy (dispNC F n)) (dispNC F n)

/-- `self._*_func.dispatch(t)` / `get_*_hook(t)` -/
def dispatch (F : Facts) (s : St) (t : TyKey) : St × Hook := cachedBy (dispNC F (F.rank t)) s t

/-- `get_*_hook(t, cache_result=False)` -/
def dispatchUncached (F : Facts) (s : St) (t : TyKey) : St × Hook := dispNC F (F.rank t) s t

/-- calling hook `h` that was dispatched for type `t`: the observable call tree -/
def callCore (F : Facts) (disp : St → TyKey → St × Hook) (rec : St → Hook → TyKey → St × Hook)
    (s : St) (h : Hook) (t : TyKey) : St × Hook :=
  match h with
  | .builtin b =>
    if F.late b then
      let r := mapSt (fun s c => rec (disp s c).1 (disp s c).2 c) s (F.sub t)
      (r.1, .made b t false r.2)
    else (s, h)
  | .made f ty wc subs =>
    let r := mapSt (fun s (p : Hook × TyKey) => rec s p.1 p.2) s (subs.zip (F.sub t))
    (r.1, .made f ty wc r.2)
  | _ => (s, h)

def callN (F : Facts) : Nat → St → Hook → TyKey → St × Hook
  | 0 => callCore F stuck (fun s h _ => (s, h))
  | n+1 => callCore F (cachedBy (dispNC F n)) (callN F n)

/-- `converter.structure(x, t)` / `converter.unstructure(x, unstructure_as=t)`: cached dispatch, then the call -/
def call (F : Facts) (s : St) (t : TyKey) : St × Hook :=
  callN F (F.rank t) (dispatch F s t).1 (dispatch F s t).2 t

/-- the call tree as a function of the registrations alone -/
def behaveCore (F : Facts) (res : TyKey → Hook) (rec : Hook → TyKey → Hook) (h : Hook) (t : TyKey) : Hook :=
  match h with
  | .builtin b => if F.late b then .made b t false ((F.sub t).map (fun c => rec (res c) c)) else h
  | .made f ty wc subs => .made f ty wc ((subs.zip (F.sub t)).map (fun p => rec p.1 p.2))
  | _ => h

def behaveN (F : Facts) (res : TyKey → Hook) : Nat → Hook → TyKey → Hook
  | 0 => behaveCore F res (fun h _ => h)
  | n+1 => behaveCore F res (behaveN F res n)

/-- the call tree of hook `h` (dispatched for `t`) when call-time dispatches answer `res` -/
def behaveWith (F : Facts) (res : TyKey → Hook) (h : Hook) (t : TyKey) : Hook := behaveN F res (F.rank t) h t

def behave (F : Facts) (r : Regs) (h : Hook) (t : TyKey) : Hook := behaveWith F (resolve F r) h t

/-! ## operations on one converter -/

inductive Op where
  /-- `register_structure_hook(T, f)` / `register_unstructure_hook(T, f)` (also the decorator forms, which
  read `T` off the annotation and recurse) -/
  | regHook (ty : TyKey) (tag : Nat)
  /-- `register_*_hook_func(pred, f)`, `register_*_hook_factory(pred, factory)` (both forms) -/
  | regPred (e : Entry)
  /-- `get_*_hook(T)` -/
  | dispatch (ty : TyKey)
  /-- `get_*_hook(T, cache_result=False)` -/
  | dispatchNC (ty : TyKey)
  /-- `structure(x, T)` / `unstructure(x, unstructure_as=T)` -/
  | call (ty : TyKey)
  deriving Repr, Inhabited

def Op.isReg : Op → Bool
  | .regHook .. => true
  | .regPred .. => true
  | _ => false

/-- `clear_direct()` -/
def clearDirect (s : St) : St := { s with direct := [] }
/-- `self.dispatch.cache_clear()` -/
def cacheClear (s : St) : St := { s with lru := [] }
/-- `clear_cache()` -/
def clearCache (s : St) : St := { s with direct := [], lru := [] }

/-- `register_func_list([e])`: `insert(0, ..)`, `clear_direct()`, `cache_clear()` -/
def registerFuncList (s : St) (e : Entry) : St :=
  cacheClear (clearDirect { s with regs := { s.regs with preds := e :: s.regs.preds } })

/-- `register_cls_list([(c, h)])`: singledispatch `register`, `clear_direct()`, `cache_clear()` -/
def registerClsList (s : St) (c : TyKey) (h : Hook) : St :=
  cacheClear (clearDirect { s with regs := { s.regs with single := (c, h) :: s.regs.single } })

/-- the entry `register_*_hook` creates for a NewType (`lambda t: t is cls`) or, when unstructuring, for a
union (`lambda t: t == cls`) -/
def exactEntry (ty : TyKey) (tag : Nat) : Entry :=
  { pred := .exact ty, kind := .plain, tag := tag }

/-- `register_structure_hook` L485-495 / `register_unstructure_hook` L351-360 -/
def registerHook (F : Facts) (s : St) (ty : TyKey) (tag : Nat) : St :=
  if F.isUnion ty then
    if s.regs.isStruct then
      clearCache { s with regs := { s.regs with unionReg := (ty, .user tag) :: s.regs.unionReg } }
    else registerFuncList s (exactEntry ty tag)
  else if F.isNewtype ty then registerFuncList s (exactEntry ty tag)
  else registerClsList s ty (.user tag)

def step (F : Facts) (s : St) : Op → St
  | .regHook ty tag => registerHook F s ty tag
  | .regPred e => registerFuncList s e
  | .dispatch t => (dispatch F s t).1
  | .dispatchNC t => (dispatchUncached F s t).1
  | .call t => (call F s t).1

def run (F : Facts) (s : St) (ops : List Op) : St := ops.foldl (step F) s

/-- the effect of an operation on the registrations alone -/
def regStep (F : Facts) (r : Regs) : Op → Regs
  | .regHook ty tag =>
    if F.isUnion ty then
      if r.isStruct then { r with unionReg := (ty, .user tag) :: r.unionReg }
      else { r with preds := exactEntry ty tag :: r.preds }
    else if F.isNewtype ty then { r with preds := exactEntry ty tag :: r.preds }
    else { r with single := (ty, .user tag) :: r.single }
  | .regPred e => { r with preds := e :: r.preds }
  | _ => r

def initRegs (cfg : Cfg) : Regs :=
  { isStruct := cfg.isStruct, fb := cfg.fb, single := cfg.single, preds := cfg.preds, unionReg := [],
    skip := cfg.preds.length }

/-- a freshly constructed converter (one hook table of it) -/
def init (cfg : Cfg) : St := { regs := initRegs cfg }

/-! ## the declarative precedence rule (right-hand side of C07) -/

/-- tier 1, per class: the latest hook registered for class `c` (proper classes only: unions and NewTypes are
routed elsewhere); the constructor's own class registrations are the oldest -/
def classHook (F : Facts) (cfg : Cfg) (h : List Op) (c : TyKey) : Option Hook :=
  match h.reverse.findSome? (fun op => match op with
      | .regHook ty tag => if ty = c ∧ F.isUnion ty = false ∧ F.isNewtype ty = false then some (Hook.user tag) else none
      | _ => none) with
  | some x => some x
  | none => alookup cfg.single c

/-- the predicate-tier entry a registration creates, if any -/
def Op.asEntry (F : Facts) (isStruct : Bool) : Op → Option Entry
  | .regPred e => some e
  | .regHook ty tag =>
    if F.isUnion ty then (if isStruct then none else some (exactEntry ty tag))
    else if F.isNewtype ty then some (exactEntry ty tag) else none
  | _ => none

/-- tier 2 candidates: predicate hooks, hook factories and exact-type registrations, newest first -/
def userEntries (F : Facts) (cfg : Cfg) (h : List Op) : List Entry :=
  h.reverse.filterMap (Op.asEntry F cfg.isStruct)

/-- the latest structure hook registered for union `t` (these live in the union registry, behind a built-in
predicate entry) -/
def unionHook (F : Facts) (cfg : Cfg) (h : List Op) (t : TyKey) : Option Hook :=
  h.reverse.findSome? (fun op => match op with
      | .regHook ty tag => if ty = t ∧ F.isUnion ty = true ∧ cfg.isStruct = true then some (Hook.user tag) else none
      | _ => none)

def specAccepts (F : Facts) (cfg : Cfg) (h : List Op) (e : Entry) (t : TyKey) : Bool :=
  match e.kind with
  | .unionreg => F.isUnion t && (unionHook F cfg h t).isSome
  | _ => e.pred.holds F t

def specEntryHook (F : Facts) (cfg : Cfg) (h : List Op) (e : Entry) (t : TyKey) (subs : List Hook) : Hook :=
  match e.kind with
  | .plain => if e.builtin then .builtin e.tag else .user e.tag
  | .unionreg => (unionHook F cfg h t).getD (.fallback cfg.fb t)
  | .factory => .made e.tag t false (if e.wantsSubs then subs else [])
  | .extended => .made e.tag t true (if e.wantsSubs then subs else [])

def specChoose (F : Facts) (cfg : Cfg) (h : List Op) (t : TyKey) (subs : List Hook) : Hook :=
  -- 1. the most specific class of T's MRO that has a registration: its latest hook
  match (F.mro t).findSome? (classHook F cfg h) with
  | some hk => hk
  | none =>
    -- 2. the most recently registered predicate hook / hook factory / exact-type registration accepting T
    match (userEntries F cfg h).find? (fun e => specAccepts F cfg h e t) with
    | some e => specEntryHook F cfg h e t subs
    | none =>
      -- 3. the converter's built-in behaviour for T
      match cfg.preds.find? (fun e => specAccepts F cfg h e t) with
      | some e => specEntryHook F cfg h e t subs
      -- 4. the fallback factory applied to T
      | none => .fallback cfg.fb t

def specN (F : Facts) (cfg : Cfg) (h : List Op) : Nat → TyKey → Hook
  | 0, t => specChoose F cfg h t []
  | n+1, t => specChoose F cfg h t ((F.sub t).map (specN F cfg h n))

/-- the hook the documented rule selects for `t` after history `h` on a converter constructed as `cfg`
(factories are handed `t` and the hooks the same rule selects for the component types) -/
def spec (F : Facts) (cfg : Cfg) (h : List Op) (t : TyKey) : Hook := specN F cfg h (F.rank t) t

/-- what a call on type `t` shows when every dispatch — the top-level one, and the call-time dispatches of
late-binding built-in hooks — follows the documented rule -/
def specCall (F : Facts) (cfg : Cfg) (h : List Op) (t : TyKey) : Hook :=
  behaveWith F (spec F cfg h) (spec F cfg h t) t

/-! ## copy() and the store of converters -/

/-- Python's `l[:-k]` -/
def pyDropLast {α : Type} (l : List α) (k : Nat) : List α :=
  if k = 0 then [] else l.take (l.length - k)

/-- `self.copy(**overrides)`: `cfg'` is what the constructor registers under the overridden options.
`res = self.__class__(.., fallback factories of self)`; `copy_to` prepends `self._handler_pairs[:-skip]`,
re-registers every class of the singledispatch registry, `clear_cache()`; the union registry is carried over. -/
def copyOf (s : St) (cfg' : Cfg) : St :=
  let res := initRegs { cfg' with fb := s.regs.fb }
  { regs := { res with
      preds := pyDropLast s.regs.preds s.regs.skip ++ res.preds,
      single := s.regs.single ++ res.single,
      unionReg := s.regs.unionReg ++ res.unionReg },
    lru := [], direct := [] }

abbrev Store := List St

inductive SOp where
  | on (i : Nat) (op : Op)
  | copy (src : Nat) (cfg' : Cfg)
  deriving Repr, Inhabited

def sstep (F : Facts) (σ : Store) : SOp → Store
  | .on i op => σ.modify i (fun s => step F s op)
  | .copy src cfg' =>
    match σ[src]? with
    | some s => σ ++ [copyOf s cfg']
    | none => σ

def srun (F : Facts) (σ : Store) (ops : List SOp) : Store := ops.foldl (sstep F) σ

/-- the converter an operation writes to (`copy` only reads its source) -/
def SOp.target : SOp → Option Nat
  | .on i _ => some i
  | .copy .. => none

end CattrsModel.Dispatch
