import CattrsModel.Dispatch.Locs
import CattrsModel.Dispatch.LemmasHist
/-!
# Dispatch: lemmas of the identity layer (helper lemmas for Props/C18)
-/
namespace CattrsModel.Dispatch.Locs
open CattrsModel.Dispatch

@[simp] theorem setA_assoc (h : Heap) (l : Nat) (v : List (TyKey × Hook)) (k : Nat) :
    (h.setA l v).assoc k = if k = l then v else h.assoc k := rfl
@[simp] theorem setA_ents (h : Heap) (l : Nat) (v : List (TyKey × Hook)) : (h.setA l v).ents = h.ents := rfl
@[simp] theorem setA_next (h : Heap) (l : Nat) (v : List (TyKey × Hook)) : (h.setA l v).next = h.next := rfl
@[simp] theorem setE_ents (h : Heap) (l : Nat) (v : List Entry) (k : Nat) :
    (h.setE l v).ents k = if k = l then v else h.ents k := rfl
@[simp] theorem setE_assoc (h : Heap) (l : Nat) (v : List Entry) : (h.setE l v).assoc = h.assoc := rfl
@[simp] theorem setE_next (h : Heap) (l : Nat) (v : List Entry) : (h.setE l v).next = h.next := rfl

theorem mem_locs (c : Conv) (l : Nat) :
    l ∈ c.locs ↔ l = c.lSingle ∨ l = c.lPreds ∨ l = c.lUnion ∨ l = c.lDirect ∨ l = c.lLru := by
  simp [Conv.locs]

/-- **frame rule**: writing converter `c` changes the heap only at `c`'s locations -/
theorem write_frame (h : Heap) (c : Conv) (s : St) (l : Nat) (hl : l ∉ c.locs) :
    (c.write h s).assoc l = h.assoc l ∧ (c.write h s).ents l = h.ents l := by
  rw [mem_locs] at hl
  simp only [not_or] at hl
  obtain ⟨h1, h2, h3, h4, h5⟩ := hl
  simp [Conv.write, h1, h2, h3, h4, h5]

@[simp] theorem write_next (h : Heap) (c : Conv) (s : St) : (c.write h s).next = h.next := rfl

/-- a converter none of whose locations is written reads the same -/
theorem read_of_frame (h h' : Heap) (d : Conv)
    (hf : ∀ l ∈ d.locs, h'.assoc l = h.assoc l ∧ h'.ents l = h.ents l) : d.read h' = d.read h := by
  have a := fun l hl => (hf l hl).1
  have e := fun l hl => (hf l hl).2
  simp only [Conv.read]
  rw [a d.lSingle (by simp [Conv.locs]), e d.lPreds (by simp [Conv.locs]), a d.lUnion (by simp [Conv.locs]),
      a d.lLru (by simp [Conv.locs]), a d.lDirect (by simp [Conv.locs])]

theorem read_write_other (h : Heap) (c d : Conv) (s : St) (hd : ∀ l ∈ d.locs, l ∉ c.locs) :
    d.read (c.write h s) = d.read h :=
  read_of_frame h _ d (fun l hl => write_frame h c s l (hd l hl))

/-- what a converter reads after its own containers were written -/
theorem read_write_same (h : Heap) (c : Conv) (s : St) (hn : c.locs.Nodup)
    (h1 : s.regs.isStruct = c.isStruct) (h2 : s.regs.fb = c.fb) (h3 : s.regs.skip = c.skip) :
    c.read (c.write h s) = s := by
  have hn' : c.lSingle ≠ c.lUnion ∧ c.lSingle ≠ c.lDirect ∧ c.lSingle ≠ c.lLru ∧ c.lUnion ≠ c.lDirect ∧
      c.lUnion ≠ c.lLru ∧ c.lDirect ≠ c.lLru := by
    simp only [Conv.locs, List.nodup_cons, List.mem_cons, List.not_mem_nil, or_false, not_or, List.nodup_nil,
      and_true] at hn
    obtain ⟨⟨_, a2, a3, a4⟩, _, ⟨c1, c2⟩, d1, _⟩ := hn
    exact ⟨a2, a3, a4, c1, c2, d1⟩
  obtain ⟨e1, e2, e3, e4, e5, e6⟩ := hn'
  obtain ⟨⟨isS, fb, single, preds, unionReg, skip⟩, lru, direct⟩ := s
  simp only at h1 h2 h3
  subst h1 h2 h3
  simp [Conv.read, Conv.write, e1, e2, e3, e4, e5, e6, e1.symm, e2.symm, e3.symm, e4.symm, e5.symm, e6.symm]

/-- registrations, dispatches and calls never change the scalars of a table -/
theorem regStep_scalars (F : Facts) (r : Regs) (op : Op) :
    (regStep F r op).isStruct = r.isStruct ∧ (regStep F r op).fb = r.fb ∧ (regStep F r op).skip = r.skip := by
  cases op <;> simp only [regStep] <;> (repeat' split) <;> simp

/-! ## construction and copy allocate fresh locations -/

theorem construct_conv (h : Heap) (cfg : Cfg) :
    (construct h cfg).2.locs = [h.next, h.next + 1, h.next + 2, h.next + 3, h.next + 4] ∧
    (construct h cfg).1.next = h.next + 5 := ⟨rfl, rfl⟩

theorem construct_frame (h : Heap) (cfg : Cfg) (l : Nat) (hl : l < h.next) :
    (construct h cfg).1.assoc l = h.assoc l ∧ (construct h cfg).1.ents l = h.ents l := by
  have := write_frame { h with next := h.next + 5 } (construct h cfg).2 (init cfg) l
    (by rw [(construct_conv h cfg).1]; simp; omega)
  exact this

theorem construct_read (h : Heap) (cfg : Cfg) : (construct h cfg).2.read (construct h cfg).1 = init cfg := by
  have hn : (construct h cfg).2.locs.Nodup := by
    rw [(construct_conv h cfg).1]; simp
  exact read_write_same _ _ _ hn rfl rfl rfl

theorem copyConv_conv (h : Heap) (src : Conv) (cfg' : Cfg) :
    (copyConv h src cfg').2.locs = [h.next, h.next + 5, h.next + 2, h.next + 3, h.next + 4] ∧
    (copyConv h src cfg').1.next = h.next + 6 := ⟨rfl, rfl⟩

/-- `copy` writes no location that existed before -/
theorem copyConv_frame (h : Heap) (src : Conv) (cfg' : Cfg) (l : Nat) (hl : l < h.next) :
    (copyConv h src cfg').1.assoc l = h.assoc l ∧ (copyConv h src cfg').1.ents l = h.ents l := by
  have c := construct_frame h { cfg' with fb := src.fb } l hl
  have e1 : l ≠ h.next := by omega
  have e2 : l ≠ h.next + 2 := by omega
  have e3 : l ≠ h.next + 3 := by omega
  have e4 : l ≠ h.next + 4 := by omega
  have e5 : l ≠ h.next + 5 := by omega
  constructor
  · simp only [copyConv, setA_assoc, setE_assoc]
    simp only [construct, e1, e2, e3, e4, if_false]
    exact c.1
  · simp only [copyConv, setA_ents, setE_ents]
    simp only [construct, write_next, e5, if_false]
    exact c.2

/-- the copy reads as `copyOf` of what the source reads -/
theorem copyConv_read (h : Heap) (src : Conv) (cfg' : Cfg) (hs : ∀ l ∈ src.locs, l < h.next) :
    (copyConv h src cfg').2.read (copyConv h src cfg').1 = copyOf (src.read h) cfg' := by
  have b : src.lSingle < h.next ∧ src.lPreds < h.next ∧ src.lUnion < h.next := by
    refine ⟨hs _ ?_, hs _ ?_, hs _ ?_⟩ <;> simp [Conv.locs]
  obtain ⟨b1, b2, b3⟩ := b
  have c1 := (construct_frame h { cfg' with fb := src.fb } src.lSingle b1).1
  have c2 := (construct_frame h { cfg' with fb := src.fb } src.lPreds b2).2
  have c3 := (construct_frame h { cfg' with fb := src.fb } src.lUnion b3).1
  have r := construct_read h { cfg' with fb := src.fb }
  have rs : (construct h { cfg' with fb := src.fb }).1.assoc h.next = cfg'.single := by
    have := congrArg (fun s => s.regs.single) r; simpa [Conv.read, construct, init, initRegs] using this
  have rp : (construct h { cfg' with fb := src.fb }).1.ents (h.next + 1) = cfg'.preds := by
    have := congrArg (fun s => s.regs.preds) r; simpa [Conv.read, construct, init, initRegs] using this
  have ru : (construct h { cfg' with fb := src.fb }).1.assoc (h.next + 2) = [] := by
    have := congrArg (fun s => s.regs.unionReg) r; simpa [Conv.read, construct, init, initRegs] using this
  have n1 : src.lSingle ≠ h.next + 2 := by omega
  have n2 : src.lSingle ≠ h.next + 3 := by omega
  have n3 : src.lSingle ≠ h.next + 4 := by omega
  have n4 : src.lSingle ≠ h.next := by omega
  have m1 : src.lUnion ≠ h.next + 2 := by omega
  have m2 : src.lUnion ≠ h.next + 3 := by omega
  have m3 : src.lUnion ≠ h.next + 4 := by omega
  have m4 : src.lUnion ≠ h.next := by omega
  have p1 : src.lPreds ≠ h.next + 5 := by omega
  generalize hcx : ({ cfg' with fb := src.fb } : Cfg) = cfgx at c1 c2 c3 r rs rp ru
  have f1 : (construct h cfgx).2.lSingle = h.next := rfl
  have f2 : (construct h cfgx).2.lPreds = h.next + 1 := rfl
  have f3 : (construct h cfgx).2.lUnion = h.next + 2 := rfl
  have f4 : (construct h cfgx).2.lDirect = h.next + 3 := rfl
  have f5 : (construct h cfgx).2.lLru = h.next + 4 := rfl
  have f6 : (construct h cfgx).1.next = h.next + 5 := rfl
  have f7 : (construct h cfgx).2.isStruct = cfgx.isStruct := rfl
  have f8 : (construct h cfgx).2.fb = cfgx.fb := rfl
  have f9 : (construct h cfgx).2.skip = cfgx.preds.length := rfl
  simp only [copyConv, hcx, Conv.read, copyOf, initRegs, setA_assoc, setE_assoc, setA_ents, setE_ents,
    f1, f2, f3, f4, f5, f6, f7, f8, f9]
  subst hcx
  simp [n1, n2, n3, n4, m1, m2, m3, m4, p1, c1, c2, c3, rs, rp, ru]

/-! ## the store invariant -/

/-- every converter has five distinct containers, distinct converters share none, every container is allocated,
and (needed to know that dispatching leaves the scalars alone) every converter's caches are sound -/
structure WFS (F : Facts) (σ : HStore) : Prop where
  own : ∀ (i : Nat) (c : Conv), σ.convs[i]? = some c → c.locs.Nodup
  disj : ∀ (i j : Nat) (ci cj : Conv), i ≠ j → σ.convs[i]? = some ci → σ.convs[j]? = some cj →
    ∀ l ∈ ci.locs, l ∉ cj.locs
  bound : ∀ (i : Nat) (c : Conv), σ.convs[i]? = some c → ∀ l ∈ c.locs, l < σ.heap.next
  ok : ∀ (i : Nat) (c : Conv), σ.convs[i]? = some c → CacheOK F (c.read σ.heap)

theorem WFS_empty (F : Facts) : WFS F ⟨Heap.empty, []⟩ :=
  ⟨by simp, by simp, by simp, by simp⟩

theorem step_scalars (F : Facts) (s : St) (op : Op) (hs : CacheOK F s) :
    (step F s op).regs.isStruct = s.regs.isStruct ∧ (step F s op).regs.fb = s.regs.fb ∧
    (step F s op).regs.skip = s.regs.skip := by
  rw [(step_good F s op hs).2]
  exact regStep_scalars F s.regs op

/-- the converter an operation is addressed to reads afterwards what `step` says -/
theorem on_read_self (F : Facts) (σ : HStore) (w : WFS F σ) (i : Nat) (c : Conv) (hc : σ.convs[i]? = some c) (op : Op) :
    c.read (c.write σ.heap (step F (c.read σ.heap) op)) = step F (c.read σ.heap) op := by
  obtain ⟨h1, h2, h3⟩ := step_scalars F (c.read σ.heap) op (w.ok i c hc)
  exact read_write_same _ _ _ (w.own i c hc) h1 h2 h3

theorem getElem?_append_singleton {α : Type} (l : List α) (a : α) (i : Nat) (x : α)
    (h : (l ++ [a])[i]? = some x) : (i < l.length ∧ l[i]? = some x) ∨ (i = l.length ∧ x = a) := by
  rcases Nat.lt_or_ge i l.length with hi | hi
  · left; rw [List.getElem?_append_left hi] at h; exact ⟨hi, h⟩
  · right
    rw [List.getElem?_append_right hi] at h
    cases hk : i - l.length with
    | zero => rw [hk] at h; simp at h; exact ⟨by omega, h.symm⟩
    | succ k => rw [hk] at h; simp at h

theorem hstep_WFS (F : Facts) (σ : HStore) (op : SOp) (w : WFS F σ) : WFS F (hstep F σ op) := by
  cases op with
  | on i o =>
    simp only [hstep, hstepWith]
    cases hc : σ.convs[i]? with
    | none => exact w
    | some c =>
      refine ⟨w.own, w.disj, w.bound, ?_⟩
      intro j d hd
      by_cases hj : j = i
      · subst hj
        have : d = c := by rw [hc] at hd; exact (Option.some.inj hd).symm
        subst this
        show CacheOK F (d.read (d.write σ.heap (step F (d.read σ.heap) o)))
        rw [on_read_self F σ w j d hc o]
        exact (step_good F _ o (w.ok j d hc)).1
      · show CacheOK F (d.read (c.write σ.heap (step F (c.read σ.heap) o)))
        rw [read_write_other _ _ _ _ (w.disj j i d c hj hd hc)]
        exact w.ok j d hd
  | copy src cfg' =>
    simp only [hstep, hstepWith]
    cases hc : σ.convs[src]? with
    | none => exact w
    | some c =>
      have hb := w.bound src c hc
      obtain ⟨hl, hn⟩ := copyConv_conv σ.heap c cfg'
      have hnew : ∀ l ∈ (copyConv σ.heap c cfg').2.locs, σ.heap.next ≤ l := by
        intro l hl'; rw [hl] at hl'; simp at hl'; omega
      refine ⟨?_, ?_, ?_, ?_⟩
      · intro i d hd
        rcases getElem?_append_singleton _ _ i d hd with ⟨_, h⟩ | ⟨_, rfl⟩
        · exact w.own i d h
        · rw [hl]; simp
      · intro i j ci cj hij hi hj l hli hlj
        rcases getElem?_append_singleton _ _ i ci hi with ⟨_, h1⟩ | ⟨e1, rfl⟩
        · rcases getElem?_append_singleton _ _ j cj hj with ⟨_, h2⟩ | ⟨_, rfl⟩
          · exact w.disj i j ci cj hij h1 h2 l hli hlj
          · have := w.bound i ci h1 l hli
            have := hnew l hlj
            omega
        · rcases getElem?_append_singleton _ _ j cj hj with ⟨_, h2⟩ | ⟨e2, _⟩
          · have := w.bound j cj h2 l hlj
            have := hnew l hli
            omega
          · omega
      · intro i d hd l hld
        show l < (copyConv σ.heap c cfg').1.next
        rw [hn]
        rcases getElem?_append_singleton _ _ i d hd with ⟨_, h⟩ | ⟨_, rfl⟩
        · have := w.bound i d h l hld; omega
        · rw [hl] at hld; simp at hld; omega
      · intro i d hd
        show CacheOK F (d.read (copyConv σ.heap c cfg').1)
        rcases getElem?_append_singleton _ _ i d hd with ⟨_, h⟩ | ⟨_, rfl⟩
        · rw [read_of_frame σ.heap _ d (fun l hl' => copyConv_frame σ.heap c cfg' l (w.bound i d h l hl'))]
          exact w.ok i d h
        · rw [copyConv_read σ.heap c cfg' hb]
          exact cacheOK_empty F _

theorem hrun_WFS (F : Facts) : ∀ (ops : List SOp) (σ : HStore), WFS F σ → WFS F (hrun F σ ops) := by
  intro ops
  induction ops with
  | nil => intro σ w; exact w
  | cons op ops ih => intro σ w; exact ih _ (hstep_WFS F σ op w)

theorem add_WFS (F : Facts) (σ : HStore) (cfg : Cfg) (w : WFS F σ) : WFS F (σ.add cfg) := by
  obtain ⟨hl, hn⟩ := construct_conv σ.heap cfg
  have hnew : ∀ l ∈ (construct σ.heap cfg).2.locs, σ.heap.next ≤ l := by
    intro l hl'; rw [hl] at hl'; simp at hl'; omega
  refine ⟨?_, ?_, ?_, ?_⟩
  · intro i d hd
    rcases getElem?_append_singleton _ _ i d hd with ⟨_, h⟩ | ⟨_, rfl⟩
    · exact w.own i d h
    · rw [hl]; simp
  · intro i j ci cj hij hi hj l hli hlj
    rcases getElem?_append_singleton _ _ i ci hi with ⟨_, h1⟩ | ⟨e1, rfl⟩
    · rcases getElem?_append_singleton _ _ j cj hj with ⟨_, h2⟩ | ⟨_, rfl⟩
      · exact w.disj i j ci cj hij h1 h2 l hli hlj
      · have := w.bound i ci h1 l hli
        have := hnew l hlj
        omega
    · rcases getElem?_append_singleton _ _ j cj hj with ⟨_, h2⟩ | ⟨e2, _⟩
      · have := w.bound j cj h2 l hlj
        have := hnew l hli
        omega
      · omega
  · intro i d hd l hld
    show l < (construct σ.heap cfg).1.next
    rw [hn]
    rcases getElem?_append_singleton _ _ i d hd with ⟨_, h⟩ | ⟨_, rfl⟩
    · have := w.bound i d h l hld; omega
    · rw [hl] at hld; simp at hld; omega
  · intro i d hd
    show CacheOK F (d.read (construct σ.heap cfg).1)
    rcases getElem?_append_singleton _ _ i d hd with ⟨_, h⟩ | ⟨_, rfl⟩
    · rw [read_of_frame σ.heap _ d (fun l hl' => construct_frame σ.heap cfg l (w.bound i d h l hl'))]
      exact w.ok i d h
    · rw [construct_read]; exact init_ok F cfg

theorem fresh_WFS (F : Facts) (cfgs : List Cfg) : WFS F (HStore.fresh cfgs) := by
  unfold HStore.fresh
  have : ∀ (cfgs : List Cfg) (σ : HStore), WFS F σ → WFS F (cfgs.foldl HStore.add σ) := by
    intro cfgs
    induction cfgs with
    | nil => intro σ w; exact w
    | cons c cs ih => intro σ w; exact ih _ (add_WFS F σ c w)
  exact this cfgs _ (WFS_empty F)

/-! ## reading the heap store back gives the value store -/

theorem readAll_getElem? (σ : HStore) (i : Nat) : σ.readAll[i]? = (σ.convs[i]?).map (Conv.read σ.heap) := by
  simp [HStore.readAll]

theorem hstep_readAll (F : Facts) (σ : HStore) (op : SOp) (w : WFS F σ) :
    (hstep F σ op).readAll = sstep F σ.readAll op := by
  cases op with
  | on i o =>
    simp only [hstep, hstepWith, sstep]
    cases hc : σ.convs[i]? with
    | none =>
      have : σ.readAll[i]? = none := by rw [readAll_getElem?, hc]; rfl
      apply List.ext_getElem?
      intro j
      rw [List.getElem?_modify]
      by_cases hj : i = j
      · subst hj; simp [this]
      · simp [hj]
    | some c =>
      apply List.ext_getElem?
      intro j
      rw [List.getElem?_modify, readAll_getElem?, readAll_getElem?]
      by_cases hj : i = j
      · subst hj
        simp only [hc, Option.map_some, if_true]
        exact congrArg some (on_read_self F σ w i c hc o)
      · simp only [hj, if_false]
        cases hd : σ.convs[j]? with
        | none => rfl
        | some d =>
          simp only [Option.map_some]
          exact congrArg some (read_write_other _ _ _ _ (w.disj j i d c (fun e => hj e.symm) hd hc))
  | copy src cfg' =>
    simp only [hstep, hstepWith, sstep, readAll_getElem?]
    cases hc : σ.convs[src]? with
    | none => rfl
    | some c =>
      simp only [Option.map_some, HStore.readAll, List.map_append, List.map_cons, List.map_nil]
      congr 1
      · apply List.map_congr_left
        intro d hd
        obtain ⟨i, hi, rfl⟩ := List.getElem_of_mem hd
        exact read_of_frame σ.heap _ _ (fun l hl =>
          copyConv_frame σ.heap c cfg' l (w.bound i _ (List.getElem?_eq_getElem hi) l hl))
      · rw [copyConv_read σ.heap c cfg' (w.bound src c hc)]

theorem hrun_readAll (F : Facts) : ∀ (ops : List SOp) (σ : HStore), WFS F σ →
    (hrun F σ ops).readAll = srun F σ.readAll ops := by
  intro ops
  induction ops with
  | nil => intro σ _; rfl
  | cons op ops ih =>
    intro σ w
    have := ih _ (hstep_WFS F σ op w)
    simp only [hrun, srun, List.foldl_cons] at this ⊢
    rw [← hstep_readAll F σ op w]
    exact this

theorem fresh_readAll (cfgs : List Cfg) (F : Facts) : (HStore.fresh cfgs).readAll = cfgs.map init := by
  unfold HStore.fresh
  have : ∀ (cfgs : List Cfg) (σ : HStore), WFS F σ →
      (cfgs.foldl HStore.add σ).readAll = σ.readAll ++ cfgs.map init := by
    intro cfgs
    induction cfgs with
    | nil => intro σ _; simp
    | cons c cs ih =>
      intro σ w
      rw [List.foldl_cons, ih _ (add_WFS F σ c w)]
      have : (σ.add c).readAll = σ.readAll ++ [init c] := by
        simp only [HStore.add, HStore.readAll, List.map_append, List.map_cons, List.map_nil]
        congr 1
        · apply List.map_congr_left
          intro d hd
          obtain ⟨i, hi, rfl⟩ := List.getElem_of_mem hd
          exact read_of_frame σ.heap _ _ (fun l hl =>
            construct_frame σ.heap c l (w.bound i _ (List.getElem?_eq_getElem hi) l hl))
        · rw [construct_read]
      rw [this]; simp
  have := this cfgs _ (WFS_empty F)
  simpa [HStore.readAll] using this

/-! ## frame rule at store level, and isolation derived from it -/

/-- the handles of existing converters never change; operations only append -/
theorem hstep_convs (F : Facts) (σ : HStore) (op : SOp) (i : Nat) (c : Conv) (hc : σ.convs[i]? = some c) :
    (hstep F σ op).convs[i]? = some c := by
  cases op with
  | on j o =>
    simp only [hstep, hstepWith]
    cases σ.convs[j]? <;> exact hc
  | copy src cfg' =>
    simp only [hstep, hstepWith]
    cases σ.convs[src]? with
    | none => exact hc
    | some d =>
      have hi : i < σ.convs.length := by
        rcases Nat.lt_or_ge i σ.convs.length with h | h
        · exact h
        · rw [List.getElem?_eq_none h] at hc; cases hc
      show (σ.convs ++ [_])[i]? = some c
      rw [List.getElem?_append_left hi]; exact hc

/-- **frame rule**: an operation addressed to converter `j` changes the heap at locations of converter `j` only;
a copy changes no location that was allocated before -/
theorem hstep_frame (F : Facts) (σ : HStore) (op : SOp) (l : Nat) (hl : l < σ.heap.next)
    (hnot : ∀ j c, op.target = some j → σ.convs[j]? = some c → l ∉ c.locs) :
    (hstep F σ op).heap.assoc l = σ.heap.assoc l ∧ (hstep F σ op).heap.ents l = σ.heap.ents l := by
  cases op with
  | on j o =>
    simp only [hstep, hstepWith]
    cases hc : σ.convs[j]? with
    | none => exact ⟨rfl, rfl⟩
    | some c => exact write_frame _ _ _ l (hnot j c rfl hc)
  | copy src cfg' =>
    simp only [hstep, hstepWith]
    cases hc : σ.convs[src]? with
    | none => exact ⟨rfl, rfl⟩
    | some c => exact copyConv_frame σ.heap c cfg' l hl

theorem hstep_next_le (F : Facts) (σ : HStore) (op : SOp) : σ.heap.next ≤ (hstep F σ op).heap.next := by
  cases op with
  | on j o =>
    simp only [hstep, hstepWith]
    cases σ.convs[j]? <;> simp
  | copy src cfg' =>
    simp only [hstep, hstepWith]
    cases σ.convs[src]? with
    | none => simp
    | some c => show σ.heap.next ≤ (copyConv σ.heap c cfg').1.next; rw [(copyConv_conv _ _ _).2]; omega

/-- isolation, derived from disjointness of location sets + the frame rule (NOT from the value model) -/
theorem hrun_isolated (F : Facts) : ∀ (ops : List SOp) (σ : HStore), WFS F σ → ∀ (i : Nat) (c : Conv),
    σ.convs[i]? = some c → (∀ op ∈ ops, op.target ≠ some i) →
    (hrun F σ ops).convs[i]? = some c ∧
    (∀ l ∈ c.locs, (hrun F σ ops).heap.assoc l = σ.heap.assoc l ∧ (hrun F σ ops).heap.ents l = σ.heap.ents l) := by
  intro ops
  induction ops with
  | nil => intro σ _ i c hc _; exact ⟨hc, fun _ _ => ⟨rfl, rfl⟩⟩
  | cons op ops ih =>
    intro σ w i c hc hops
    have hop : op.target ≠ some i := hops op (by simp)
    have h1 := hstep_convs F σ op i c hc
    have := ih _ (hstep_WFS F σ op w) i c h1 (fun o ho => hops o (by simp [ho]))
    refine ⟨this.1, fun l hl => ?_⟩
    have fr := hstep_frame F σ op l (w.bound i c hc l hl) (by
      intro j d ht hd hld
      have hji : j ≠ i := fun e => hop (by rw [ht, e])
      exact w.disj i j c d (fun e => hji e.symm) hc hd l hl hld)
    have t := this.2 l hl
    simp only [hrun, List.foldl_cons] at t ⊢
    exact ⟨t.1.trans fr.1, t.2.trans fr.2⟩

end CattrsModel.Dispatch.Locs
