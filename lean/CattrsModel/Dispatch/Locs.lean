import CattrsModel.Dispatch.Model
/-!
# Dispatch: the identity layer (property C18 — isolation at the level of object identities)

`Dispatch/Model.lean` keeps converters BY VALUE (`Store = List St`): a copy is a new list element, so "the copy
shares no mutable table with its original" is true there by construction.  Here the five mutable containers of one
hook table of a converter are LOCATIONS in a heap:

    lSingle   `_single_dispatch.registry`            (dict)     lPreds  `_function_dispatch._handler_pairs`  (list)
    lUnion    `converter._union_struct_registry`     (dict)     lDirect `_direct_dispatch`                   (dict)
    lLru      the `lru_cache` around `dispatch`

* an operation on a converter reads the contents of ITS locations, does what `step` says, and writes the contents
  back through the same locations (`register` = `insert(0, …)`, `singledispatch.register`, `dict[...] = …`,
  `clear()`, `cache_clear()`, the memo writes of dispatching: all in-place mutations) — `Conv.write`;
* `__init__` allocates five fresh containers — `construct`;
* `copy` is transcribed from the code (`BaseConverter.copy` / `Converter.copy`, `MultiStrategyDispatch.copy_to`,
  `FunctionDispatch.copy_to`): `res = self.__class__(…)` (fresh containers, fallback factory of the source);
  `other._handler_pairs = self._handler_pairs[:-skip] + other._handler_pairs` — a NEW list object, the attribute of
  the copy is re-bound to it; every class of the source's registry `register`ed into the copy's own registry;
  `other.clear_cache()`; `res._union_struct_registry.update(self._union_struct_registry)` — `copyConv`;
* `copyByRef` is what a regression would look like: the class registry of the copy IS the source's.

`Dispatch/LocsLemmas.lean`: after any store history the location sets of distinct converters are disjoint, an
operation writes only the locations of the converter it is addressed to, hence isolation; and reading the heap store
back gives exactly the value store of `Model.lean` (`srun`).
-/
namespace CattrsModel.Dispatch.Locs
open CattrsModel.Dispatch

/-- locations are natural numbers -/
abbrev Loc := Nat

structure Heap where
  /-- contents of the dict-like containers (class registry, union registry, direct table, lru) -/
  assoc : Nat → List (TyKey × Hook)
  /-- contents of the list containers (`_handler_pairs`) -/
  ents : Nat → List Entry
  /-- next unused location -/
  next : Nat

def Heap.empty : Heap := ⟨fun _ => [], fun _ => [], 0⟩

def Heap.setA (h : Heap) (l : Nat) (v : List (TyKey × Hook)) : Heap :=
  { h with assoc := fun k => if k = l then v else h.assoc k }

def Heap.setE (h : Heap) (l : Nat) (v : List Entry) : Heap :=
  { h with ents := fun k => if k = l then v else h.ents k }

/-- one hook table of a converter: immutable scalars + the identities of its containers -/
structure Conv where
  isStruct : Bool
  fb : Nat
  skip : Nat
  lSingle : Nat
  lPreds : Nat
  lUnion : Nat
  lDirect : Nat
  lLru : Nat
  deriving Repr, DecidableEq

def Conv.locs (c : Conv) : List Nat := [c.lSingle, c.lPreds, c.lUnion, c.lDirect, c.lLru]

/-- what the converter is, by value -/
def Conv.read (h : Heap) (c : Conv) : St :=
  { regs := { isStruct := c.isStruct, fb := c.fb, single := h.assoc c.lSingle, preds := h.ents c.lPreds,
              unionReg := h.assoc c.lUnion, skip := c.skip },
    lru := h.assoc c.lLru, direct := h.assoc c.lDirect }

/-- in-place mutation of the five containers of `c` -/
def Conv.write (h : Heap) (c : Conv) (s : St) : Heap :=
  ((((h.setA c.lSingle s.regs.single).setE c.lPreds s.regs.preds).setA c.lUnion s.regs.unionReg).setA
    c.lDirect s.direct).setA c.lLru s.lru

/-- `Converter(…)`: five fresh containers filled by the constructor -/
def construct (h : Heap) (cfg : Cfg) : Heap × Conv :=
  let c : Conv := ⟨cfg.isStruct, cfg.fb, cfg.preds.length, h.next, h.next + 1, h.next + 2, h.next + 3, h.next + 4⟩
  (Conv.write { h with next := h.next + 5 } c (init cfg), c)

/-- `self.copy(**overrides)` as the code does it -/
def copyConv (h : Heap) (src : Conv) (cfg' : Cfg) : Heap × Conv :=
  -- res = self.__class__(…, fallback factories of self)
  let r := construct h { cfg' with fb := src.fb }
  let h1 := r.1
  let res := r.2
  -- FunctionDispatch.copy_to: other._handler_pairs = self._handler_pairs[:-skip] + other._handler_pairs
  let lp := h1.next
  let h2 := ({ h1 with next := h1.next + 1 } : Heap).setE lp (pyDropLast (h1.ents src.lPreds) src.skip ++ h1.ents res.lPreds)
  let res := { res with lPreds := lp }
  -- MultiStrategyDispatch.copy_to: `other._single_dispatch.register(cls, fn)` for every class; `other.clear_cache()`
  let h3 := h2.setA res.lSingle (h2.assoc src.lSingle ++ h2.assoc res.lSingle)
  let h4 := (h3.setA res.lDirect []).setA res.lLru []
  -- res._union_struct_registry.update(self._union_struct_registry)
  let h5 := h4.setA res.lUnion (h4.assoc src.lUnion ++ h4.assoc res.lUnion)
  (h5, res)

/-- a regression: the copy's class registry is the source's registry object -/
def copyByRef (h : Heap) (src : Conv) (cfg' : Cfg) : Heap × Conv :=
  let r := copyConv h src cfg'
  (r.1, { r.2 with lSingle := src.lSingle })

structure HStore where
  heap : Heap
  convs : List Conv

def HStore.readAll (σ : HStore) : Store := σ.convs.map (Conv.read σ.heap)

def HStore.allLocs (σ : HStore) : List Nat := σ.convs.flatMap Conv.locs

/-- construct converters one after the other -/
def HStore.add (σ : HStore) (cfg : Cfg) : HStore :=
  ⟨(construct σ.heap cfg).1, σ.convs ++ [(construct σ.heap cfg).2]⟩

def HStore.fresh (cfgs : List Cfg) : HStore := cfgs.foldl HStore.add ⟨Heap.empty, []⟩

def hstepWith (cp : Heap → Conv → Cfg → Heap × Conv) (F : Facts) (σ : HStore) : SOp → HStore
  | .on i op =>
    match σ.convs[i]? with
    | some c => { σ with heap := c.write σ.heap (step F (c.read σ.heap) op) }
    | none => σ
  | .copy src cfg' =>
    match σ.convs[src]? with
    | some c => ⟨(cp σ.heap c cfg').1, σ.convs ++ [(cp σ.heap c cfg').2]⟩
    | none => σ

def hstep (F : Facts) (σ : HStore) (op : SOp) : HStore := hstepWith copyConv F σ op

def hrun (F : Facts) (σ : HStore) (ops : List SOp) : HStore := ops.foldl (hstep F) σ

end CattrsModel.Dispatch.Locs
