import CattrsModel.Conv.Driver
import CattrsModel.Disambig.Driver
import CattrsModel.Dispatch.Driver
import CattrsModel.Threads.Driver
import CattrsModel.Tagged.Driver
import CattrsModel.Passthrough.Driver
import CattrsModel.Preconf.Driver
import CattrsModel.FieldConv.Driver
import CattrsModel.GenHook.Driver
import CattrsModel.Generics.Driver
import CattrsModel.Heap.Driver
import CattrsModel.Paths.Driver
import CattrsModel.GenInterp.Driver
import CattrsModel.Subclasses.Driver
import CattrsModel.Overrides.Driver
open CattrsModel

structure DState where
  world : World := { classes := [], enums := [] }

/-- handlers of the areas that need no driver state, tried in order -/
def stateless (op : String) (args : List Sexp) : Option Sexp :=
  (Disambig.disambigHandle op args)
    |>.orElse (fun _ => Dispatch.dispatchHandle op args)
    |>.orElse (fun _ => Threads.threadsHandle op args)
    |>.orElse (fun _ => Tagged.taggedHandle op args)
    |>.orElse (fun _ => Passthrough.passHandle op args)
    |>.orElse (fun _ => Preconf.preconfHandle op args)
    |>.orElse (fun _ => FieldConv.fieldConvHandle op args)
    |>.orElse (fun _ => GenHook.genHookHandle op args)
    |>.orElse (fun _ => Generics.genericsHandle op args)
    |>.orElse (fun _ => Heap.heapHandle op args)
    |>.orElse (fun _ => Subclasses.subclassesHandle op args)
    |>.orElse (fun _ => Overrides.overridesHandle op args)

def step (st : DState) (line : String) : DState × String :=
  match Sexp.parseLine line with
  | some (.atom "WORLD" :: [wd]) =>
    match worldOfSexp wd with
    | some w => ({ st with world := w }, "ok")
    | none => (st, "bad-world")
  | some (.atom op :: args) =>
    match (((convHandle st.world op args).orElse (fun _ => Paths.pathsHandle st.world op args)).orElse
        (fun _ => GenInterp.genInterpHandle st.world op args)).orElse (fun _ => stateless op args) with
    | some r => (st, r.toString)
    | none => (st, "bad-op")
  | _ => (st, "bad-line")

partial def loop (h : IO.FS.Stream) (out : IO.FS.Stream) (st : DState) : IO Unit := do
  let line ← h.getLine
  if line.isEmpty then return ()
  let (st', r) := step st line
  out.putStrLn r
  out.flush
  loop h out st'

def main : IO Unit := do
  let stdin ← IO.getStdin
  let stdout ← IO.getStdout
  loop stdin stdout {}
