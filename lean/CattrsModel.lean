import CattrsModel.Sexp
import CattrsModel.Conv.Driver
