import CattrsModel.Sexp
import CattrsModel.Conv.Driver
import CattrsModel.Props.C01
import CattrsModel.Props.C02
import CattrsModel.Props.C04
import CattrsModel.Disambig.Driver
import CattrsModel.Props.C12
import CattrsModel.Props.C03
