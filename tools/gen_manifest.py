#!/usr/bin/env python3
"""Regenerate MANIFEST.json from the table below and lean/props_registry.json."""
import json, os
V = os.path.dirname(os.path.dirname(os.path.abspath(__file__)))
props = [json.loads(l) for l in open(os.path.join(V, "properties.jsonl"))]
table = {}
md = os.path.join(V, "tools", "manifest.d")
for f in sorted(os.listdir(md)):
    if f.endswith(".json"):
        table.update(json.load(open(os.path.join(md, f))))
checks = []
na = []
import sys
sys.path.insert(0, V)
from harness import lean as _lean
reg = _lean.load_registry()
integrated = set(json.load(open(os.path.join(V, "tools", "integrated.json"))))
for p in props:
    pid = p["id"]
    t = table.get(pid)
    ready = (os.path.exists(os.path.join(V, "harness", "props", pid.lower() + ".py")) and reg.get(pid, {}).get("theorems")
             and pid in integrated)
    if t and t.get("claimed") and not ready:
        na.append({"property_id": pid, "reason": "component delivered but not yet integrated into the driver/registry in this commit (see DESIGN.md section 5)"})
        continue
    if not t or not t.get("claimed"):
        na.append({"property_id": pid, "reason": (t or {}).get("reason", "check not built yet in this round (planned, see DESIGN.md section 5)")})
        continue
    checks.append({
        "property_id": pid,
        "quick_cmd": f"./check {pid} quick",
        "thorough_cmd": f"./check {pid} thorough",
        "evidence_file": f"evidence/{pid}.json",
        "replay_cmd_template": "./check replay {path}",
        "engine": "lean4-model+correspondence",
        "level_claimed": {"category": "proof", "text": t["text"], "design_ref": t.get("design_ref", f"DESIGN.md section 5 ({pid})")},
        "level_note": t["note"],
        "technique": t["technique"],
    })
m = {
    "version": 1,
    "setup_cmd": "./check setup",
    "hooks": {
        "guard": "CATTRS_VERIF",
        "enable": "no source hooks are needed: checks import cattrs from /repo/src in-process (PYTHONPATH=/repo/src)",
        "baseline_off_cmd": "cd /repo && /venv/bin/python -m pytest -ra -q -p no:cacheprovider --timeout=900 --continue-on-collection-errors",
        "source_commits": [],
        "add_only": True,
    },
    "engines": [{
        "name": "lean4-model+correspondence",
        "path": "lean/ (model, theorems, driver) + harness/ (generators, realiser, differential check)",
        "serves_properties": [c["property_id"] for c in checks],
        "kind_free_text": "Machine-checked proof in Lean 4 about a hand-written executable model; model tied to /repo by a differential correspondence check run on every invocation",
    }],
    "checks": checks,
    "notes": "See DESIGN.md. Exit codes: 0 held, 1 violation, 2 infrastructure error. known_findings.json lists recorded findings and fixed defects.",
    "not_applicable": na,
}
json.dump(m, open(os.path.join(V, "MANIFEST.json"), "w"), indent=1)
print("checks:", [c["property_id"] for c in checks], "not claimed:", [n["property_id"] for n in na])
