#!/bin/bash
# Every quick check against a harmless rewrite of cattrs (tools/harmless/*.diff): must print OK, never VIOLATION.
# The rewrite changes the AST fingerprints, so this also exercises the drift escalation (harness/drift.py: 3 extra rounds).
# usage: OUT=<file> tools/harmless_matrix.sh <patch> [C01 ...]
cd /verif
patch=$(readlink -f $1); shift
out=${OUT:-/tmp/harmless_matrix.txt}
for p in ${*:-C01 C02 C03 C04 C05 C06 C07 C08 C09 C10 C11 C12 C13 C14 C15 C16 C17 C18 C19 C20}; do
  r=$(VERIF_SEED=${VERIF_SEED:-0} tools/mutant.sh $p $patch 2>&1 | grep -v "KNOWN-FINDING\|formats exercised\|^C19:" | head -2 | tr '\n' ' ' | cut -c1-240)
  echo "$p $(basename $patch) | $r" >> $out
done
