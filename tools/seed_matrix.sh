#!/bin/bash
# usage: tools/seed_matrix.sh [extra "<seedid>:<check>" pairs...]  -- run every seeded change through its property's quick check
cd /verif
out=${OUT:-/tmp/seed_matrix.txt}; : > $out
for d in $(ls -d /tmp/seedout-C*/[123] 2>/dev/null | sort); do
  p=$(echo $d | sed 's|/tmp/seedout-\(C[0-9][0-9]\)/\([123]\)|\1|'); k=$(basename $d)
  r=$(tools/mutant.sh $p $d/patch.diff 2>&1 | grep -v "KNOWN-FINDING\|formats exercised\|^C19:" | head -2 | tr '\n' ' ' | cut -c1-240)
  echo "$p-$k | $r" >> $out
done
echo done >> $out
