#!/bin/bash
# usage: tools/sweep.sh "<seeds>" [tier] -- run every claimed check for each seed, report anything that is not exit 0
seeds=${1:-"1 2 3"}; tier=${2:-quick}
cd "$(dirname "$(readlink -f "$0")")/.."
for s in $seeds; do
  for c in $(python3 -c "import json; print(' '.join(x['property_id'] for x in json.load(open('MANIFEST.json'))['checks']))"); do
    out=$(VERIF_SEED=$s timeout 1500 ./check $c $tier 2>&1); rc=$?
    if [ $rc -ne 0 ]; then echo "=== $c seed=$s rc=$rc"; echo "$out" | grep -v KNOWN-FINDING | tail -4 | cut -c1-600; fi
  done
done
echo "sweep done: seeds=$seeds tier=$tier"
