#!/usr/bin/env python3
"""Record the AST fingerprints of /repo/src/cattrs (harness/drift.py).  Run after every commit to /repo."""
import json, os, subprocess, sys
V = os.path.dirname(os.path.dirname(os.path.abspath(__file__)))
sys.path.insert(0, V)
os.environ.pop("CATTRS_SRC", None)
from harness import drift
head = subprocess.run(["git", "-C", "/repo", "log", "-1", "--format=%h"], capture_output=True, text=True).stdout.strip()
json.dump({"repo_commit": head, "files": drift.current()}, open(drift.FILE, "w"), indent=1)
print("fingerprints of", len(drift.current()), "modules at", head)
