#!/bin/bash
# round R (default 3): seeded/C##-rR-k (or /tmp/seedoutR-C##/k before confirmation) through the owning quick check.
# usage: OUT=<file> tools/seed_matrix3.sh [C07 ...]
cd /verif; R=${R:-3}
out=${OUT:-/tmp/seed3_matrix.txt}
for p in ${*:-C01 C02 C03 C04 C05 C06 C07 C08 C09 C10 C11 C12 C13 C14 C15 C16 C17 C18 C19 C20}; do for k in 1 2 3; do
  d=/verif/seeded/$p-r$R-$k; [ -f $d/patch.diff ] || d=/tmp/seedout$R-$p/$k; [ -f $d/patch.diff ] || continue
  grep -q "^$p-r$R-$k |" $out 2>/dev/null && continue
  r=$(tools/mutant.sh $p $d/patch.diff 2>&1 | grep -v "KNOWN-FINDING\|formats exercised\|^C19:" | head -2 | tr '\n' ' ' | cut -c1-240)
  echo "$p-r$R-$k | $r" >> $out
done; done
