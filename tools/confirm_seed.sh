#!/bin/bash
# usage: tools/confirm_seed.sh <PROP> <k> <dir-with patch.diff demo.py notes.txt>  -> /verif/seeded/<PROP>-<k>/
# Confirms, in a scratch worktree of /repo (removed afterwards): demo passes on the clean tree, fails with the patch,
# and the unedited test suite gives the baseline result with the patch applied.
prop=$1; k=$2; src=$3
tag=${TAG:-}; wt=/tmp/confirm-$prop-$tag$k
out=/verif/seeded/$prop-$tag$k
git -C /repo worktree remove --force $wt 2>/dev/null
git -C /repo worktree add -q --detach $wt HEAD || exit 2
cd $wt
base=$( [ -f /verif/seeded/.baseline_failed.txt ] && echo 1 )
run_demo() { (cd /tmp && PYTHONPATH=$wt/src timeout 600 /venv/bin/python $src/demo.py >/dev/null 2>&1; echo $?); }
clean_rc=$(run_demo)
patch -p1 -s < $src/patch.diff || { echo "patch does not apply"; cd /; git -C /repo worktree remove --force $wt; exit 2; }
mut_rc=$(run_demo)
PYTHONPATH=$wt/src /venv/bin/python -m pytest -q -p no:cacheprovider -n 6 --timeout=900 --continue-on-collection-errors 2>&1 | grep -E "^FAILED|^ERROR|passed|failed" | sed 's/ - .*//' | sort > /tmp/confirm-$prop-$tag$k.txt
tail_line=$(grep -E "passed" /tmp/confirm-$prop-$tag$k.txt | tail -1 | sed 's/ in [0-9.]*s.*//')
grep -E "^FAILED|^ERROR" /tmp/confirm-$prop-$tag$k.txt > /tmp/confirm-$prop-$tag$k.failed
same=no
if diff -q /tmp/confirm-$prop-$tag$k.failed /verif/seeded/.baseline_failed.txt >/dev/null; then same=yes; fi
git checkout -q -- . ; git clean -fdq
cd /; git -C /repo worktree remove --force $wt
mkdir -p $out
cp $src/patch.diff $out/patch.diff; cp $src/demo.py $out/demo.py; [ -f $src/notes.txt ] && cp $src/notes.txt $out/notes.txt
python3 - "$prop" "$k" "$clean_rc" "$mut_rc" "$tail_line" "$same" "$out" <<'PY'
import json,sys,subprocess
prop,k,clean_rc,mut_rc,tail,same,out=sys.argv[1:8]
meta={"property":prop,"seed":int(k),"round":(int(__import__("re").search(r"-r(\d)-",out).group(1)) if __import__("re").search(r"-r(\d)-",out) else 1),
 "repo_commit":subprocess.run(["git","-C","/repo","log","-1","--format=%h"],capture_output=True,text=True).stdout.strip(),
 "demo_exit_clean_tree":int(clean_rc),"demo_exit_with_patch":int(mut_rc),
 "suite_with_patch":tail,"suite_failing_set_equals_baseline":same=="yes",
 "confirmed": clean_rc=="0" and mut_rc!="0" and same=="yes",
 "what_ran":"tools/confirm_seed.sh: scratch worktree of /repo; demo.py on clean tree and with patch.diff applied; unedited test suite (pytest -n 6 --continue-on-collection-errors) with the patch, failing set compared with the baseline set",
 "needs_to_manifest":open(out+"/notes.txt").read()[:1500] if __import__("os").path.exists(out+"/notes.txt") else ""}
json.dump(meta,open(out+"/meta.json","w"),indent=1)
print(prop,k,"confirmed" if meta["confirmed"] else "NOT CONFIRMED",clean_rc,mut_rc,tail,same)
PY
rm -f /tmp/confirm-$prop-$tag$k.txt /tmp/confirm-$prop-$tag$k.failed
