#!/usr/bin/env python3
"""Update seeded/*/meta.json with the outcome of running the owning check (tools/seed_matrix.sh output) and print the
markdown table for DESIGN.md §I.6."""
import json, os, re, sys
V = os.path.dirname(os.path.dirname(os.path.abspath(__file__)))
matrix = {}
sibling = {}   # lines "C03-r2-2 @C18 | VIOLATION ..." = the seed run through another property's check
for src in sys.argv[1:]:
    for line in open(src):
        if " | " in line:
            k, r = line.split(" | ", 1)
            k = k.strip()
            if " @" in k:
                k, other = k.split(" @")
                sibling.setdefault(k.strip(), {})[other.strip()] = r.strip()[:200]
            else:
                matrix[k] = r.strip()
rows = {1: [], 2: [], 3: [], 4: []}
for d in sorted(os.listdir(os.path.join(V, "seeded"))):
    mp = os.path.join(V, "seeded", d, "meta.json")
    if not os.path.exists(mp):
        continue
    m = json.load(open(mp))
    patch = open(os.path.join(V, "seeded", d, "patch.diff")).read()
    files = sorted(set(re.findall(r"^\+\+\+ b/src/cattrs/(\S+)", patch, re.M)))
    r = matrix.get(d)
    if r is not None:
        if r.startswith("VIOLATION"):
            what = r.split("  ", 1)[1] if "  " in r else r
            m["check_result"] = {"caught": True, "only_correspondence": "no-failing-input-found" in r.split("  ")[0], "line": what[:200]}
        elif r.startswith("OK"):
            m["check_result"] = {"caught": False, "line": r[:120]}
        else:
            m["check_result"] = {"caught": None, "line": r[:120]}
        json.dump(m, open(mp, "w"), indent=1)
    if d in sibling:
        m["sibling_check_results"] = {o: {"caught": l.startswith("VIOLATION"), "line": l} for o, l in sibling[d].items()}
        json.dump(m, open(mp, "w"), indent=1)
    cr = m.get("check_result", {})
    mark = "✔" if cr.get("caught") else ("✘ (quick tier, seed 0)" if cr.get("caught") is False else "?")
    if cr.get("only_correspondence"):
        mark = "✔corr"
    sib = [o for o, v in m.get("sibling_check_results", {}).items() if v.get("caught")]
    if sib and not cr.get("caught"):
        mark += " — caught by " + ", ".join(sorted(sib))
    first = (m.get("needs_to_manifest") or "").strip().split("\n")
    desc = " ".join(x.strip() for x in first[:3])[:150].replace("|", "/")
    rows[m.get("round", 1)].append(f"| {d} | {', '.join(files)} | {desc} | {mark} |")
for rnd in (1, 2, 3, 4):
    if rows[rnd]:
        print(f"\nRound {rnd}:\n")
        print("| seed | file(s) changed | from the author's notes | owning check (quick) |\n|---|---|---|---|")
        print("\n".join(rows[rnd]))
