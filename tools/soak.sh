#!/bin/bash
# usage: tools/soak.sh "<checks>" "<seeds>" <logfile>   -- quick tier on the unchanged tree, evidence redirected; prints only non-zero exits
cd /verif
for c in $1; do for s in $2; do
  out=$(VERIF_SEED=$s VERIF_EVIDENCE_DIR=/tmp/soak_ev VERIF_REPLAY_DIR=/tmp/soak_rp/$c-$s timeout 1500 ./check $c quick 2>&1); rc=$?
  if [ $rc -ne 0 ]; then echo "=== $c seed=$s rc=$rc" >> $3; echo "$out" | grep -v KNOWN-FINDING | tail -4 | cut -c1-700 >> $3; else echo "ok $c $s" >> $3.ok; fi
done; done
echo "soak done: $1 / $2" >> $3
