#!/bin/bash
# usage: tools/mutant_local.sh <prop> <patch.diff>   -- as tools/mutant.sh, but runs the check of THIS copy
set -e
prop=$1; shift
here=$(cd "$(dirname "$0")/.." && pwd)
d=$(mktemp -d /tmp/mut.XXXXXX)
mkdir -p $d/work && git -C /repo archive HEAD | tar -x -C $d/work
(cd $d/work && patch -p1 -s < "$1")
tier=${TIER:-quick}
cd $here && VERIF_LEAN_DIR=$here/lean VERIF_EVIDENCE_DIR=$d/ev VERIF_REPLAY_DIR=$d/rp CATTRS_SRC=$d/work/src ./check $prop $tier | grep -E "VIOLATION|^OK|KNOWN|INFRA|^  " | head -6
rm -rf $d
