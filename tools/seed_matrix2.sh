#!/bin/bash
# round 2: /tmp/seedout2-C##/k
cd /verif
out=${OUT:-/tmp/seed2_matrix.txt}
for d in $(ls -d /tmp/seedout2-C*/[123] 2>/dev/null | sort); do
  p=$(echo $d | sed 's|/tmp/seedout2-\(C[0-9][0-9]\)/\([123]\)|\1|'); k=$(basename $d)
  grep -q "^$p-r2-$k |" $out 2>/dev/null && continue
  r=$(tools/mutant.sh $p $d/patch.diff 2>&1 | grep -v "KNOWN-FINDING\|formats exercised\|^C19:" | head -2 | tr '\n' ' ' | cut -c1-240)
  echo "$p-r2-$k | $r" >> $out
done
