#!/bin/bash
# round 2: seeded/C##-r2-k through the owning property's quick check (patched scratch copy, /repo untouched).
# usage: OUT=<file> tools/seed_matrix2.sh [C07 C08 ...]   (default: all)
cd /verif
out=${OUT:-/tmp/seed2_matrix.txt}
props=${*:-$(ls seeded | grep -- -r2- | cut -d- -f1 | sort -u)}
for p in $props; do for k in 1 2 3; do
  d=/verif/seeded/$p-r2-$k; [ -f $d/patch.diff ] || continue
  grep -q "^$p-r2-$k |" $out 2>/dev/null && continue
  r=$(tools/mutant.sh $p $d/patch.diff 2>&1 | grep -v "KNOWN-FINDING\|formats exercised\|^C19:" | head -2 | tr '\n' ' ' | cut -c1-240)
  echo "$p-r2-$k | $r" >> $out
done; done
