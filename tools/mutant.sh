#!/bin/bash
# usage: tools/mutant.sh <prop> (-r <commit-to-revert> | <patch.diff>)   -- run a check against a mutated scratch copy of /repo/src
set -e
prop=$1; shift
d=$(mktemp -d /tmp/mut.XXXXXX)
mkdir -p $d/work && git -C /repo archive HEAD | tar -x -C $d/work
if [ "$1" = "-r" ]; then
  (cd /repo && git show $2 | (cd $d/work && patch -R -p1 -s))
else
  (cd $d/work && patch -p1 -s < "$1")
fi
tier=${TIER:-quick}
cd /verif && VERIF_EVIDENCE_DIR=$d/ev VERIF_REPLAY_DIR=$d/rp CATTRS_SRC=$d/work/src ./check $prop $tier | grep -E "VIOLATION|^OK|INFRA|^  " | head -6
rm -rf $d
