#!/bin/bash
# Every confirmed seed of the given properties (all rounds: seeded/C##-k, C##-r2-k, C##-r3-k) through the owning
# property's quick check (tools/mutant.sh: patched scratch copy, /repo untouched).  usage: OUT=<file> tools/seed_matrix_all.sh C07 C08 ...
cd /verif
out=${OUT:-/tmp/seed_matrix_all.txt}
for p in "$@"; do for d in $(ls -d /verif/seeded/$p-* | sort); do
  n=$(basename $d); [ -f $d/patch.diff ] || continue
  grep -q "^$n |" $out 2>/dev/null && continue
  r=$(tools/mutant.sh $p $d/patch.diff 2>&1 | grep -v "KNOWN-FINDING\|formats exercised\|^C19:" | head -2 | tr '\n' ' ' | cut -c1-240)
  echo "$n | $r" >> $out
done; done
